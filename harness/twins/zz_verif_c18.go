package twins

import (
	"io"

	"github.com/relab/hotstuff"
	"github.com/relab/hotstuff/core/logging"
	"github.com/relab/hotstuff/internal/proto/clientpb"
)

func vhBlock(tok uint8) *hotstuff.Block {
	var h hotstuff.Hash
	h[0] = 0xC1
	h[1] = tok
	return hotstuff.VMakeBlock(h, hotstuff.Hash{}, hotstuff.QuorumCert{}, &clientpb.Batch{}, 1, 1)
}

// C18(a): checkCommits on synthetic commit logs. shape encodes, per replica (base 6), twin?*3 +
// log length... kept simple: nrep replicas, replica i has twins iff bit i of twinMask, each
// node's log has length lens digit i (base 4) with symbolic block tokens.
func VH_C18_checkcommits(nrep int, twinMask int, lens int) {
	net := &Network{replicas: map[hotstuff.ID][]*node{}}
	type rlog struct {
		single bool
		toks   []uint8
	}
	var logs []rlog
	l := lens
	for i := 0; i < nrep; i++ {
		ln := l % 4
		l /= 4
		mk := func() (*node, []uint8) {
			nd := &node{}
			var toks []uint8
			for j := 0; j < ln; j++ {
				t := nondetU8("tok")
				toks = append(toks, t)
				nd.executedBlocks = append(nd.executedBlocks, vhBlock(t))
			}
			return nd, toks
		}
		n1, t1 := mk()
		nodes := []*node{n1}
		single := twinMask&(1<<uint(i)) == 0
		if !single {
			n2, _ := mk()
			nodes = append(nodes, n2)
		}
		net.replicas[hotstuff.ID(i+1)] = nodes
		logs = append(logs, rlog{single, t1})
	}
	safe, commits := checkCommits(net)
	// reference: first position where two single-node replicas that both have a block differ
	wantSafe, wantCommits := true, 0
	for pos := 0; pos < 4 && wantSafe; pos++ {
		any := false
		var first uint8
		for _, lg := range logs {
			if !lg.single || len(lg.toks) <= pos {
				continue
			}
			if !any {
				any, first = true, lg.toks[pos]
			} else if lg.toks[pos] != first {
				wantSafe = false
			}
		}
		if !any {
			break
		}
		if wantSafe {
			wantCommits = pos + 1
		} else {
			wantCommits = pos
		}
	}
	vobserve("safe", vhB(safe))
	vobserve("commits", uint64(commits))
	if !wantSafe {
		vcover("divergence")
	}
	vassert(safe == wantSafe, "unsafe-iff-two-non-twin-replicas-differ-at-a-position")
	vassert(commits == wantCommits, "commit-count-is-agreed-prefix-length")
}

func vhB(b bool) uint64 {
	if b {
		return 1
	}
	return 0
}

// C18(b): one step of the scenario odometer from an arbitrary index vector.
func VH_C18_odometer(views int, L int) {
	g := &Generator{settings: Settings{Views: uint8(views)}}
	for i := 0; i < L; i++ {
		g.leadersPartitions = append(g.leadersPartitions, View{Leader: hotstuff.ID(i + 1)})
	}
	idx := make([]int, views)
	off := make([]int, views)
	last := true
	for i := range idx {
		idx[i] = nondetInt("index")
		off[i] = nondetInt("offset")
		vassume(idx[i] >= 0 && idx[i] < L && off[i] >= 0 && off[i] < L)
		if idx[i] != L-1 {
			last = false
		}
	}
	g.indices = append([]int(nil), idx...)
	g.offsets = append([]int(nil), off...)
	rem := nondetInt("remaining")
	vassume(rem >= 1 && rem < 1<<40)
	g.remaining = int64(rem)
	vclass("last-index-vector", last)
	s, err := g.NextScenario()
	vobserve("eof", vhB(err != nil))
	vassert(err == nil, "every-index-vector-yields-its-scenario")
	if err != nil {
		vassert(err == io.EOF, "only-eof-error")
		return
	}
	vassert(len(s) == views, "scenario-has-one-entry-per-view")
	for i := 0; i < views && i < len(s); i++ {
		vassert(int(s[i].Leader) == (idx[i]+off[i])%L+1, "view-i-reads-entry-index-plus-offset-mod-L")
	}
	vassert(g.remaining == int64(rem)-1, "remaining-decremented")
	if last {
		vcover("last")
		// the enumeration is complete: the next call reports EOF and yields nothing
		s2, err2 := g.NextScenario()
		vassert(err2 == io.EOF && s2 == nil, "eof-after-the-last-scenario")
		vassert(g.remaining == int64(rem)-1, "eof-does-not-count")
	} else {
		vcover("not-last")
		// indices advanced by one in base L (last position least significant)
		carry := 1
		for i := views - 1; i >= 0; i-- {
			want := idx[i] + carry
			carry = 0
			if want == L {
				want, carry = 0, 1
			}
			vassert(len(g.indices) == views && g.indices[i] == want, "odometer-adds-one-in-base-L")
		}
	}
}

// C18(c): every generated partition scenario is well formed.
func VH_C18_partitions(numNodes int, numTwins int, k int, views int) {
	nodes, twins := assignNodeIDs(uint8(numNodes), uint8(numTwins))
	all := append(append([]NodeID(nil), twins...), nodes...)
	scen := genPartitionScenarios(twins, nodes, uint8(k), 1)
	vassert(len(scen) >= 1, "some-scenario-generated")
	vobserve("count", uint64(len(scen)))
	for si := range scen {
		vcover("scenario")
		p := scen[si]
		vassert(len(p) == k, "k-partitions")
		for _, id := range all {
			c := 0
			for _, part := range p {
				if part.Contains(id) {
					c++
				}
			}
			vassert(c == 1, "every-node-in-exactly-one-partition")
		}
	}
	for a := range scen {
		for b := 0; b < a; b++ {
			same := true
			for pi := 0; pi < k; pi++ {
				for _, id := range all {
					if scen[a][pi].Contains(id) != scen[b][pi].Contains(id) {
						same = false
					}
				}
			}
			vassert(!same, "scenarios-pairwise-different")
		}
	}
	// the leaders offered by the generator are configured non-twin replicas
	g := NewGenerator(vhLog(), Settings{NumNodes: uint8(numNodes), NumTwins: uint8(numTwins), Partitions: uint8(k), Views: uint8(views)})
	vassert(len(g.leadersPartitions) == len(scen)*len(nodes), "one-entry-per-scenario-and-leader")
	for _, lp := range g.leadersPartitions {
		isNode := false
		for _, nd := range nodes {
			if nd.ReplicaID == lp.Leader {
				isNode = true
			}
		}
		vassert(isNode, "leader-is-a-configured-replica")
	}
	want := int64(1)
	for i := 0; i < views; i++ {
		want *= int64(len(g.leadersPartitions))
	}
	vassert(g.Remaining() == want, "announced-count-is-L-to-the-views")
}

func vhLog() logging.Logger { return logging.VNop() }
