package votingmachine

import (
	"context"

	"github.com/relab/hotstuff"
	"github.com/relab/hotstuff/core"
	"github.com/relab/hotstuff/core/eventloop"
	"github.com/relab/hotstuff/core/logging"
	"github.com/relab/hotstuff/internal/proto/clientpb"
	"github.com/relab/hotstuff/protocol"
	"github.com/relab/hotstuff/security/cert"
)

// C09(a): the all-to-one vote collector. m votes arrive; pat gives each vote's shape (base 5:
// 0 one-entry vote for B, 1 two-entry vote for B, 2 one-entry vote for B', 3 deferred vote for an
// unknown block, 4 deferred one-entry vote for B); claimed signers, real owners and signed blocks
// are symbolic.
func VH_C09_votes(n int, m int, pat int, ed int) {
	w := cert.VNewWorld(1, n, ed == 1, 0, vsymbolic(), core.WithSyncVerification())
	q := hotstuff.VQuorumRef(n)
	el := eventloop.New(logging.VNop(), 100)
	state, err := protocol.NewViewStates(w.Chain, w.Auth)
	vassert(err == nil, "viewstates")
	vm := New(logging.VNop(), el, w.Cfg, w.Chain, w.Auth, state)
	// the collector may be in any view (at, before or - after a timeout - beyond the block's)
	cur := hotstuff.View(nondetU64("current-view"))
	vassume(cur >= 1 && cur < 1<<40)
	state.VSetView(cur)
	var qcs []hotstuff.QuorumCert
	eventloop.Register(el, func(nv hotstuff.NewViewMsg) {
		if qc, ok := nv.SyncInfo.QC(); ok {
			qcs = append(qcs, qc)
		}
	})
	gen := hotstuff.GetGenesis()
	gqc := hotstuff.NewQuorumCert(nil, 0, gen.Hash())
	B := hotstuff.VMakeBlock(hotstuff.VHash(0), gen.Hash(), gqc, &clientpb.Batch{}, 5, 1)
	B2 := hotstuff.VMakeBlock(hotstuff.VHash(1), gen.Hash(), gqc, &clientpb.Batch{}, 6, 2)
	w.Chain.Store(B)
	w.Chain.Store(B2)
	msgs := [][]byte{B.ToBytes(), B2.ToBytes()}
	valid := make([]bool, n+1)
	anyv := make([]bool, n+1)
	count, anyCount := 0, 0
	emitted := 0
	code := pat
	for step := 0; step < m; step++ {
		kind := code % 5
		code /= 5
		k := 1
		if kind == 1 {
			k = 2
		}
		es := make([]cert.VEntry, k)
		for j := range es {
			es[j].Claimed = hotstuff.ID(nondetU32("claimed"))
			es[j].Owner = nondetInt("owner")
			vassume(es[j].Owner >= 0 && es[j].Owner <= n)
			es[j].Msg = nondetInt("msg") & 1
		}
		target := 0
		h := B.Hash()
		if kind == 2 {
			target, h = 1, B2.Hash()
		} else if kind == 3 {
			target, h = 2, hotstuff.VHash(100)
		}
		pc := hotstuff.NewPartialCert(w.Multi(es, msgs), h)
		vm.CollectVote(hotstuff.VoteMsg{ID: hotstuff.ID(nondetU32("sender")), PartialCert: pc, Deferred: kind >= 3})
		for el.Tick(context.Background()) {
		}
		// ground truth for B. single[s]: replica s has delivered a valid single-signature vote;
		// any[s]: a valid signature of s for B has arrived in some acceptable vote (all entries
		// valid, configured and distinct).
		okAll := target == 0
		for j := range es {
			c := int(es[j].Claimed)
			okAll = okAll && c >= 1 && c <= n && es[j].Owner == c-1 && es[j].Msg == 0
		}
		if k == 2 {
			okAll = okAll && es[0].Claimed != es[1].Claimed
		}
		live := okAll && emitted == 0
		for r := 1; r <= n; r++ {
			hit0 := live && int(es[0].Claimed) == r
			hit := hit0
			if k == 2 {
				hit = hit || (live && int(es[1].Claimed) == r)
			}
			if hit && !anyv[r] {
				anyCount++
			}
			anyv[r] = anyv[r] || hit
			if k == 1 {
				if hit0 && !valid[r] {
					count++
				}
				valid[r] = valid[r] || hit0
			}
		}
		// QCs emitted so far for B
		nB := 0
		for _, qc := range qcs {
			if qc.BlockHash() == B.Hash() {
				nB++
				vassert(w.Auth.VerifyQuorumCert(qc) == nil, "emitted-qc-verifies")
				vassert(qc.Signature().Participants().Len() >= q, "emitted-qc-has-quorum")
			}
		}
		vassert(nB <= 1, "at-most-one-qc-per-block")
		if emitted == 0 {
			if count >= q {
				vcover("quorum-reached")
				vassert(nB == 1, "qc-emitted-once-a-quorum-of-honest-votes-arrived")
			}
			if nB >= 1 {
				vassert(anyCount >= q, "no-qc-before-a-quorum-of-valid-signatures")
				emitted = 1
			}
		}
		vobserve("qcs", uint64(len(qcs)))
	}
}

// C09(b): hostile votes cannot prevent the QC: h hostile votes (1- or 2-entry, everything
// symbolic) arrive first, then honest single votes from a rotation of q distinct replicas.
func VH_C09_hostile_then_honest(n int, h int, two int, where int) {
	w := cert.VNewWorld(1, n, false, 0, vsymbolic(), core.WithSyncVerification())
	q := hotstuff.VQuorumRef(n)
	el := eventloop.New(logging.VNop(), 100)
	state, err := protocol.NewViewStates(w.Chain, w.Auth)
	vassert(err == nil, "viewstates")
	vm := New(logging.VNop(), el, w.Cfg, w.Chain, w.Auth, state)
	// the collector may be in any view (at, before or - after a timeout - beyond the block's)
	cur := hotstuff.View(nondetU64("current-view"))
	vassume(cur >= 1 && cur < 1<<40)
	state.VSetView(cur)
	var qcs []hotstuff.QuorumCert
	eventloop.Register(el, func(nv hotstuff.NewViewMsg) {
		if qc, ok := nv.SyncInfo.QC(); ok {
			qcs = append(qcs, qc)
		}
	})
	gen := hotstuff.GetGenesis()
	gqc := hotstuff.NewQuorumCert(nil, 0, gen.Hash())
	B := hotstuff.VMakeBlock(hotstuff.VHash(0), gen.Hash(), gqc, &clientpb.Batch{}, 5, 1)
	B2 := hotstuff.VMakeBlock(hotstuff.VHash(1), gen.Hash(), gqc, &clientpb.Batch{}, 6, 2)
	w.Chain.Store(B)
	w.Chain.Store(B2)
	msgs := [][]byte{B.ToBytes(), B2.ToBytes()}
	hostile := func() {
		for i := 0; i < h; i++ {
			k := 1
			if two == 1 {
				k = 2
			}
			es := make([]cert.VEntry, k)
			for j := range es {
				es[j].Claimed = hotstuff.ID(nondetU32("claimed"))
				es[j].Owner = nondetInt("owner")
				vassume(es[j].Owner >= 0 && es[j].Owner <= n)
				es[j].Msg = nondetInt("msg") & 1
			}
			hh := B.Hash()
			if nondetBool("for-the-other-block") {
				hh = B2.Hash()
			}
			vm.CollectVote(hotstuff.VoteMsg{ID: es[0].Claimed, PartialCert: hotstuff.NewPartialCert(w.Multi(es, msgs), hh)})
			for el.Tick(context.Background()) {
			}
		}
	}
	start := nondetInt("start")
	vassume(start >= 0 && start < n)
	for i := 0; i < q; i++ {
		if i == where {
			hostile()
		}
		s := (start+i)%n + 1
		es := []cert.VEntry{{Claimed: hotstuff.ID(s), Owner: s - 1, Msg: 0}}
		if h == 0 && i == q-1 {
			vassert(len(qcs) == 0, "no-qc-from-fewer-than-quorum-size-votes")
		}
		vm.CollectVote(hotstuff.VoteMsg{ID: hotstuff.ID(s), PartialCert: hotstuff.NewPartialCert(w.Multi(es, msgs), B.Hash())})
		for el.Tick(context.Background()) {
		}
	}
	nB := 0
	for _, qc := range qcs {
		vassert(w.Auth.VerifyQuorumCert(qc) == nil, "emitted-qc-verifies")
		if qc.BlockHash() == B.Hash() {
			nB++
		}
	}
	vobserve("qcs", uint64(len(qcs)))
	vcover("no-qc-from-hostile-votes")
	vassert(nB >= 1, "qc-forms-once-a-quorum-of-honest-votes-is-present")
}
