package rules

import (
	"context"

	"github.com/relab/hotstuff"
	"github.com/relab/hotstuff/core"
	"github.com/relab/hotstuff/core/eventloop"
	"github.com/relab/hotstuff/core/logging"
	"github.com/relab/hotstuff/internal/proto/clientpb"
	"github.com/relab/hotstuff/security/blockchain"
)

// vhNoSender never finds a missing block.
type vhNoSender struct{}

func (vhNoSender) NewView(hotstuff.ID, hotstuff.SyncInfo) error { return nil }
func (vhNoSender) Vote(hotstuff.ID, hotstuff.PartialCert) error { return nil }
func (vhNoSender) Timeout(hotstuff.TimeoutMsg)                  {}
func (vhNoSender) Propose(*hotstuff.ProposeMsg)                 {}
func (s vhNoSender) Sub([]hotstuff.ID) (core.Sender, error)     { return s, nil }
func (vhNoSender) RequestBlock(context.Context, hotstuff.Hash) (*hotstuff.Block, bool) {
	return nil, false
}

const (
	vhGen = -1 // genesis
)

// vhForest: k blocks; links are indices: -1 genesis, 0..i-1 earlier block, k unknown hash, k+1 zero hash.
type vhForest struct {
	k      int
	blocks []*hotstuff.Block
	parent []int
	qc     []int
	view   []hotstuff.View
	qcview []hotstuff.View
	stored []bool
	chain  *blockchain.Blockchain
}

func (f *vhForest) hashOf(idx int) hotstuff.Hash {
	cand := make([]hotstuff.Hash, f.k+3)
	cand[0] = hotstuff.GetGenesis().Hash()
	for i := 0; i < f.k; i++ {
		if i < len(f.blocks) {
			cand[i+1] = f.blocks[i].Hash()
		}
	}
	cand[f.k+1] = hotstuff.VHash(100)
	// cand[k+2] stays the zero hash
	return cand[idx+1]
}

func vhBuild(k int, mask int) *vhForest {
	f := &vhForest{k: k}
	viewPad := make([]hotstuff.View, k+3) // view by link index+1; 0 for genesis/unknown/zero
	for i := 0; i < k; i++ {
		p := nondetInt("parent")
		q := nondetInt("qc")
		vassume(p >= -1 && p <= k+1 && (p < i || p >= k))
		vassume(q >= -1 && q <= k+1 && (q < i || q >= k))
		v := hotstuff.View(nondetU64("view"))
		vassume(v >= 1 && v < 1<<62)
		qv := hotstuff.View(nondetU64("qcview"))
		vassume(qv < 1<<62)
		st := mask&(1<<uint(i)) != 0
		f.parent = append(f.parent, p)
		f.qc = append(f.qc, q)
		f.view = append(f.view, v)
		f.qcview = append(f.qcview, qv)
		f.stored = append(f.stored, st)
		// premise (C13): views grow along parent links between known blocks
		vassume(!(p >= 0 && p < k) || v > viewPad[p+1])
		viewPad[i+1] = v
		cert := hotstuff.NewQuorumCert(nil, qv, f.hashOf(q))
		b := hotstuff.VMakeBlock(hotstuff.VHash(i), f.hashOf(p), cert, &clientpb.Batch{}, v, 1)
		f.blocks = append(f.blocks, b)
	}
	el := eventloop.New(logging.VNop(), 10)
	f.chain = blockchain.New(el, logging.VNop(), vhNoSender{})
	for i, b := range f.blocks {
		if f.stored[i] {
			f.chain.Store(b)
		}
	}
	return f
}

const vhNone = -100 // ⊥

func (f *vhForest) known(i int) bool { return i == vhGen || (i >= 0 && i < f.k && f.stored[i]) }

// ref: block named by b's QC if stored, else ⊥. Genesis's own QC names the zero hash.
func (f *vhForest) ref(b int) int {
	if b == vhNone || b == vhGen {
		return vhNone
	}
	q := f.qc[b]
	if f.known(q) {
		return q
	}
	return vhNone
}

func (f *vhForest) viewOf(i int) hotstuff.View {
	if i == vhGen {
		return 0
	}
	return f.view[i]
}

func (f *vhForest) parentOf(i int) int {
	if i == vhGen {
		return f.k + 1 // genesis' parent is the zero hash
	}
	return f.parent[i]
}

func (f *vhForest) block(i int) *hotstuff.Block {
	if i == vhGen {
		return hotstuff.GetGenesis()
	}
	return f.blocks[i]
}

// onChain: t is b itself or an ancestor of b through stored blocks.
func (f *vhForest) onChain(b, t int) bool {
	cur := b
	for steps := 0; steps <= f.k+1; steps++ {
		if cur == t {
			return true
		}
		if cur == vhGen || cur >= f.k {
			return false
		}
		nxt := f.parent[cur]
		if !f.known(nxt) {
			return false
		}
		cur = nxt
	}
	return false
}

func (f *vhForest) pickBlock(name string, mustBeStored bool) int {
	i := nondetInt(name)
	vassume(i >= -1 && i < f.k)
	if mustBeStored && i >= 0 {
		vassume(f.stored[i])
	}
	return i
}

func (f *vhForest) idx(b *hotstuff.Block) int {
	if b == nil {
		return vhNone
	}
	if b == hotstuff.GetGenesis() {
		return vhGen
	}
	for i := range f.blocks {
		if f.blocks[i] == b {
			return i
		}
	}
	return -99
}

// C04 chained HotStuff: commit, lock and vote equal the published rules.
func VH_C04_chained(k int, mask int) {
	f := vhBuild(k, mask)
	cfg := core.NewRuntimeConfig(1, nil)
	hs := NewChainedHotStuff(logging.VNop(), cfg, f.chain)
	vassert(hs.ChainLength() == 3, "chain-length")
	lock := f.pickBlock("lock", true)
	hs.bLock = f.block(lock)
	b := f.pickBlock("target", false)
	vassume(b >= 0)
	if nondetBool("do-commit-rule") {
		got := f.idx(hs.CommitRule(f.blocks[b]))
		b1 := f.ref(b)
		b2 := f.ref(b1)
		b3 := f.ref(b2)
		wantLock := lock
		if b2 != vhNone && f.viewOf(b2) > f.viewOf(lock) {
			wantLock = b2
			vcover("lock-advanced")
		}
		want := vhNone
		if b1 != vhNone && b2 != vhNone && b3 != vhNone &&
			f.parentOf(b1) == b2 && f.parentOf(b2) == b3 &&
			f.viewOf(b1) == f.viewOf(b2)+1 && f.viewOf(b2) == f.viewOf(b3)+1 {
			want = b3
			vcover("committed")
		}
		vobserve("commit", uint64(int64(got)))
		vassert(got == want, "commit-equals-three-chain-rule")
		vassert(f.idx(hs.bLock) == wantLock, "lock-is-two-chain-head")
	} else {
		prop := hotstuff.ProposeMsg{ID: 1, Block: f.blocks[b]}
		got := hs.VoteRule(hotstuff.View(nondetU64("view-arg")), prop)
		r := f.ref(b)
		live := r != vhNone && f.viewOf(r) > f.viewOf(lock)
		safe := f.onChain(b, lock)
		if live && !safe {
			vcover("vote-by-liveness")
		}
		if safe && !live {
			vcover("vote-by-safety")
		}
		vobserve("vote", vhB(got))
		vassert(got == (live || safe), "vote-equals-safety-or-liveness")
		vassert(f.idx(hs.bLock) == lock, "vote-rule-keeps-lock")
	}
}

func vhB(b bool) uint64 {
	if b {
		return 1
	}
	return 0
}

// C04 Fast-HotStuff.
func VH_C04_fast(k int, mask int) {
	f := vhBuild(k, mask)
	cfg := core.NewRuntimeConfig(1, nil, core.WithAggregateQC())
	hs := NewFastHotStuff(logging.VNop(), cfg, f.chain)
	vassert(hs.ChainLength() == 2, "chain-length")
	b := f.pickBlock("target", false)
	vassume(b >= 0)
	if nondetBool("do-commit-rule") {
		got := f.idx(hs.CommitRule(f.blocks[b]))
		p := f.ref(b)
		g := f.ref(p)
		want := vhNone
		if p != vhNone && g != vhNone && f.parentOf(b) == p && f.viewOf(b) == f.viewOf(p)+1 &&
			f.parentOf(p) == g && f.viewOf(p) == f.viewOf(g)+1 {
			want = g
			vcover("committed")
		}
		vobserve("commit", uint64(int64(got)))
		vassert(got == want, "commit-equals-two-chain-rule")
	} else {
		view := hotstuff.View(nondetU64("view-arg"))
		prop := hotstuff.ProposeMsg{ID: 1, Block: f.blocks[b]}
		withAgg := nondetBool("with-aggqc")
		if withAgg {
			agg := hotstuff.NewAggregateQC(nil, nil, 0)
			prop.AggregateQC = &agg
		}
		got := hs.VoteRule(view, prop)
		var want bool
		if withAgg {
			r := f.ref(b)
			want = r != vhNone && f.onChain(b, r)
			if want {
				vcover("vote-with-aggqc")
			}
		} else {
			want = f.view[b] >= view && f.view[b] == f.qcview[b]+1
			if want {
				vcover("vote-plain")
			}
		}
		vobserve("vote", vhB(got))
		vassert(got == want, "vote-equals-fast-hotstuff-rule")
	}
}

// C04 simplified HotStuff.
func VH_C04_simple(k int, mask int) {
	f := vhBuild(k, mask)
	cfg := core.NewRuntimeConfig(1, nil)
	hs := NewSimpleHotStuff(logging.VNop(), cfg, f.chain)
	vassert(hs.ChainLength() == 3, "chain-length")
	lock := f.pickBlock("lock", true)
	hs.locked = f.block(lock)
	b := f.pickBlock("target", false)
	vassume(b >= 0)
	if nondetBool("do-commit-rule") {
		got := f.idx(hs.CommitRule(f.blocks[b]))
		p := f.ref(b)
		g := f.ref(p)
		gg := f.ref(g)
		wantLock := lock
		if p != vhNone && g != vhNone && f.viewOf(g) > f.viewOf(lock) {
			wantLock = g
			vcover("lock-advanced")
		}
		want := vhNone
		if p != vhNone && g != vhNone && gg != vhNone && f.viewOf(gg)+2 == f.viewOf(p) {
			want = gg
			vcover("committed")
		}
		vobserve("commit", uint64(int64(got)))
		vassert(got == want, "commit-equals-view-gap-rule")
		vassert(f.idx(hs.locked) == wantLock, "lock-is-grandparent")
	} else {
		view := hotstuff.View(nondetU64("view-arg"))
		prop := hotstuff.ProposeMsg{ID: 1, Block: f.blocks[b]}
		got := hs.VoteRule(view, prop)
		p := f.ref(b)
		want := f.view[b] >= view && p != vhNone && f.viewOf(p) >= f.viewOf(lock)
		if want {
			vcover("vote-yes")
		}
		vobserve("vote", vhB(got))
		vassert(got == want, "vote-equals-simple-rule")
		vassert(f.idx(hs.locked) == lock, "vote-rule-keeps-lock")
	}
}

// C04 happy path: a straight chain of m consecutive views starting above any v0; every block is
// voted for and the commit trails the newest block by exactly ChainLength certified links.
func VH_C04_happy(rule int, m int) {
	el := eventloop.New(logging.VNop(), 10)
	chain := blockchain.New(el, logging.VNop(), vhNoSender{})
	var rs interface {
		VoteRule(hotstuff.View, hotstuff.ProposeMsg) bool
		CommitRule(*hotstuff.Block) *hotstuff.Block
		ChainLength() int
	}
	switch rule {
	case 0:
		rs = NewChainedHotStuff(logging.VNop(), core.NewRuntimeConfig(1, nil), chain)
	case 1:
		rs = NewFastHotStuff(logging.VNop(), core.NewRuntimeConfig(1, nil, core.WithAggregateQC()), chain)
	default:
		rs = NewSimpleHotStuff(logging.VNop(), core.NewRuntimeConfig(1, nil), chain)
	}
	v0 := hotstuff.View(nondetU64("v0"))
	vassume(v0 < 1<<62)
	gen := hotstuff.GetGenesis()
	blocks := []*hotstuff.Block{gen}
	views := []hotstuff.View{0}
	for i := 1; i <= m; i++ {
		prev := blocks[i-1]
		v := v0 + hotstuff.View(i)
		if i == 1 {
			// the first block certifies genesis with the genesis QC (view 0)
			v = 1
			vassume(v0 == 0)
		}
		cert := hotstuff.NewQuorumCert(nil, views[i-1], prev.Hash())
		b := hotstuff.VMakeBlock(hotstuff.VHash(i), prev.Hash(), cert, &clientpb.Batch{}, v, 1)
		vassert(rs.VoteRule(v, hotstuff.ProposeMsg{ID: 1, Block: b}), "happy-path-votes")
		chain.Store(b)
		c := rs.CommitRule(b)
		back := rs.ChainLength()
		if i-back >= 0 {
			vcover("happy-commit")
			vassert(c == blocks[i-back], "happy-path-commit-trails-by-chain-length")
		} else {
			vassert(c == nil, "happy-path-no-early-commit")
		}
		blocks = append(blocks, b)
		views = append(views, v)
	}
}
