package leaderrotation

import (
	"github.com/relab/hotstuff"
	"github.com/relab/hotstuff/core"
	"github.com/relab/hotstuff/internal/tree"
)

func vhConfig(self hotstuff.ID, n int, opts ...core.RuntimeOption) *core.RuntimeConfig {
	cfg := core.NewRuntimeConfig(self, nil, opts...)
	for i := 1; i <= n; i++ {
		cfg.AddReplica(&hotstuff.ReplicaInfo{ID: hotstuff.ID(i)})
	}
	return cfg
}

// C16(a): round-robin for one n and all 2^64 views.
func VH_C16_roundrobin(n int) {
	v := hotstuff.View(nondetU64("view"))
	a := NewRoundRobin(vhConfig(1, n))
	b := NewRoundRobin(vhConfig(hotstuff.ID(n), n)) // another replica's instance
	l := a.GetLeader(v)
	vobserve("leader", uint64(l))
	vassert(l >= 1 && int(l) <= n, "leader-is-configured")
	vassert(b.GetLeader(v) == l, "same-leader-on-every-replica")
	vassert(ChooseRoundRobin(v, n) == l, "matches-choose")
	if v != ^hotstuff.View(0) {
		vcover("successor")
		// deciding the parity of the view first splits the query into two the solvers answer
		// quickly for every n (for n = 2*odd the undivided query stalls every back end)
		if v&1 == 1 {
			vcover("odd-view")
		}
		next := a.GetLeader(v + 1)
		want := l + 1
		if int(l) == n {
			want = 1
		}
		vassert(next == want, "next-view-is-cyclic-successor")
	}
}

// C16(b): fixed and tree-root leaders are constant, configured and agree across replicas.
func VH_C16_fixed_tree(n int, bf int) {
	v := hotstuff.View(nondetU64("view"))
	w := hotstuff.View(nondetU64("view2"))
	lead := hotstuff.ID(nondetU32("fixed-leader"))
	vassume(lead >= 1 && int(lead) <= n)
	f := NewFixed(lead)
	vassert(f.GetLeader(v) == lead && f.GetLeader(w) == lead, "fixed-is-constant")
	// tree: positions are symbolic, pairwise distinct, configured IDs
	pos := make([]hotstuff.ID, n)
	for i := range pos {
		pos[i] = hotstuff.ID(nondetU32("pos"))
		vassume(pos[i] >= 1 && int(pos[i]) <= n)
		for j := 0; j < i; j++ {
			vassume(pos[j] != pos[i])
		}
	}
	me := nondetInt("me")
	vassume(me >= 0 && me < n)
	other := nondetInt("other")
	vassume(other >= 0 && other < n)
	t1 := tree.NewSimple(pos[me], bf, pos)
	t2 := tree.NewSimple(pos[other], bf, pos)
	l1 := NewTreeBased(vhConfig(pos[me], n, core.WithKauriTree(t1)))
	l2 := NewTreeBased(vhConfig(pos[other], n, core.WithKauriTree(t2)))
	r := l1.GetLeader(v)
	vobserve("root", uint64(r))
	vassert(r == pos[0], "tree-leader-is-root")
	vassert(r == t1.Root(), "tree-leader-equals-root-method")
	vassert(l2.GetLeader(w) == r, "tree-leader-same-on-every-replica-and-view")
	vassert(r >= 1 && int(r) <= n, "tree-leader-is-configured")
	noTree := NewTreeBased(vhConfig(1, n))
	nt := noTree.GetLeader(v)
	vassert(nt >= 1 && int(nt) <= n && nt == noTree.GetLeader(w), "tree-leader-without-tree-is-a-configured-constant")
}
