package leaderrotation

import (
	"math/rand"

	"github.com/relab/hotstuff"
	"github.com/relab/hotstuff/core"
	"github.com/relab/hotstuff/core/logging"
	"github.com/relab/hotstuff/internal/proto/clientpb"
	"github.com/relab/hotstuff/protocol"
	"github.com/relab/hotstuff/security/cert"
	"github.com/relab/hotstuff/security/crypto"
)

// C16(c): carousel. The committed head carries a QC signed by the replicas in sigmask (bit i =
// replica i+1); the last committed blocks have symbolic proposers; round and seed are symbolic.
func VH_C16_carousel(n int, sigmask int, depth int) {
	seed := int64(nondetU64("seed"))
	round := hotstuff.View(nondetU64("round"))
	sym := vsymbolic()
	if !sym {
		// The engine treats the PRNG as an arbitrary function of the seed, so the seed in a
		// counterexample need not produce the draw the solver chose. Natively the real PRNG runs:
		// replay with a shared seed whose draw for this round agrees with the model's draw modulo
		// every possible number of candidates (n <= 10, lcm 2520). The property does not depend on
		// which seed it is.
		seed = vhSeedFor(nondetU64("rand.Int"), round)
	}
	mk := func(self int) (*Carousel, *cert.VWorld, *protocol.ViewStates) {
		w := cert.VNewWorld(self, n, false, 0, sym, core.WithSharedRandomSeed(seed))
		st, err := protocol.NewViewStates(w.Chain, w.Auth)
		if err != nil {
			panic(err)
		}
		return NewCarousel(3, w.Chain, st, w.Cfg, logging.VNop()), w, st
	}
	c1, w1, s1 := mk(1)
	c2, w2, s2 := mk(n)
	f := hotstuff.NumFaulty(n)
	gen := hotstuff.GetGenesis()
	var signers []hotstuff.ID
	var sigs []*crypto.ECDSASignature
	for i := 0; i < n; i++ {
		if sigmask&(1<<uint(i)) != 0 {
			signers = append(signers, hotstuff.ID(i+1))
			sigs = append(sigs, crypto.RestoreECDSASignature([]byte{byte(i)}, hotstuff.ID(i+1)))
		}
	}
	// a committed chain gen <- b0 <- ... <- b(depth-1) = head
	prev := gen
	var chain []*hotstuff.Block
	var props []hotstuff.ID
	var view hotstuff.View
	for i := 0; i < depth; i++ {
		p := hotstuff.ID(nondetU32("proposer"))
		vassume(p >= 1 && int(p) <= n)
		v := hotstuff.View(nondetU64("view"))
		vassume(v > view && v < 1<<40)
		view = v
		qc := hotstuff.NewQuorumCert(nil, prev.View(), prev.Hash())
		if i == depth-1 && len(sigs) > 0 {
			// a committed block's QC was verified: it has at least a quorum of signers; the
			// start-up case (no signature at all) is sigmask 0
			qc = hotstuff.NewQuorumCert(crypto.NewMulti(sigs...), prev.View(), prev.Hash())
		}
		b := hotstuff.VMakeBlock(hotstuff.VHash(i), prev.Hash(), qc, &clientpb.Batch{}, v, p)
		w1.Chain.Store(b)
		w2.Chain.Store(b)
		chain = append(chain, b)
		props = append(props, p)
		prev = b
	}
	head := chain[depth-1]
	s1.VSetCommitted(head)
	s2.VSetCommitted(head)
	l := c1.GetLeader(round)
	vobserve("round-low-bit", uint64(round&1)) // the leader itself depends on the concrete PRNG stream
	vassert(c2.GetLeader(round) == l, "same-leader-on-every-replica")
	vassert(c1.GetLeader(round) == l, "same-answer-when-asked-again")
	active := len(signers) > 0 && head.View() == round-3
	if !active {
		vcover("fallback")
		vassert(l == ChooseRoundRobin(round, n), "falls-back-to-round-robin")
		return
	}
	vcover("active")
	isSigner := false
	for _, s := range signers {
		if s == l {
			isSigner = true
		}
	}
	vassert(isSigner, "leader-signed-the-committed-heads-certificate")
	// the proposers of the last f committed blocks (head first) are excluded
	for i := 0; i < f && i < depth; i++ {
		vassert(l != props[depth-1-i], "leader-proposed-none-of-the-last-f-committed-blocks")
	}
	vassert(l >= 1 && int(l) <= n, "leader-is-configured")
}

func vhSeedFor(want uint64, round hotstuff.View) int64 {
	for s := int64(0); s < 200000; s++ {
		if uint64(rand.New(rand.NewSource(s+int64(round))).Int())%2520 == want%2520 {
			return s
		}
	}
	return 0
}
