package protocol

import "github.com/relab/hotstuff"

// Harness support: set the view state directly (arbitrary-state step lemmas).
func (s *ViewStates) VSetView(v hotstuff.View)             { s.view = v }
func (s *ViewStates) VSetHighQC(qc hotstuff.QuorumCert)     { s.highQC = qc }
func (s *ViewStates) VSetHighTC(tc hotstuff.TimeoutCert)    { s.highTC = tc }
func (s *ViewStates) VSetCommitted(b *hotstuff.Block)       { s.committedBlock = b }
