package comm

import (
	"context"

	"github.com/relab/hotstuff"
	"github.com/relab/hotstuff/core"
	"github.com/relab/hotstuff/core/eventloop"
	"github.com/relab/hotstuff/core/logging"
	"github.com/relab/hotstuff/internal/proto/clientpb"
	"github.com/relab/hotstuff/internal/proto/hotstuffpb"
	"github.com/relab/hotstuff/internal/proto/kauripb"
	"github.com/relab/hotstuff/internal/tree"
	"github.com/relab/hotstuff/security/cert"
)

// vhKSig: every structural shape of a wire signature inside a tree contribution (BLS excluded).
func vhKSig() *hotstuffpb.QuorumSignature {
	switch k := nondetInt("sig-shape"); {
	case k == 0:
		return nil
	case k == 1:
		return &hotstuffpb.QuorumSignature{}
	case k == 2:
		return &hotstuffpb.QuorumSignature{Sig: &hotstuffpb.QuorumSignature_ECDSASigs{}}
	case k == 3:
		return &hotstuffpb.QuorumSignature{Sig: &hotstuffpb.QuorumSignature_ECDSASigs{ECDSASigs: &hotstuffpb.ECDSAMultiSignature{}}}
	case k == 4:
		return &hotstuffpb.QuorumSignature{Sig: &hotstuffpb.QuorumSignature_ECDSASigs{ECDSASigs: &hotstuffpb.ECDSAMultiSignature{Sigs: []*hotstuffpb.ECDSASignature{nil}}}}
	case k == 5:
		return &hotstuffpb.QuorumSignature{Sig: &hotstuffpb.QuorumSignature_ECDSASigs{ECDSASigs: &hotstuffpb.ECDSAMultiSignature{Sigs: []*hotstuffpb.ECDSASignature{
			{Signer: nondetU32("signer"), Sig: []byte{nondetU8("byte")}}, {Signer: nondetU32("signer")}}}}}
	case k == 6:
		return &hotstuffpb.QuorumSignature{Sig: &hotstuffpb.QuorumSignature_EDDSASigs{EDDSASigs: &hotstuffpb.EDDSAMultiSignature{Sigs: []*hotstuffpb.EDDSASignature{nil}}}}
	case k == 7:
		return &hotstuffpb.QuorumSignature{Sig: &hotstuffpb.QuorumSignature_EDDSASigs{EDDSASigs: &hotstuffpb.EDDSAMultiSignature{Sigs: []*hotstuffpb.EDDSASignature{
			{Signer: nondetU32("signer"), Sig: []byte{nondetU8("byte")}}}}}}
	case k == 8:
		return &hotstuffpb.QuorumSignature{Sig: &hotstuffpb.QuorumSignature_EDDSASigs{}}
	default:
		vassume(k == 9)
		// a full quorum of configured signer labels with junk bytes
		var sigs []*hotstuffpb.ECDSASignature
		for s := 1; s <= 3; s++ {
			sigs = append(sigs, &hotstuffpb.ECDSASignature{Signer: uint32(s), Sig: []byte{nondetU8("byte")}})
		}
		return &hotstuffpb.QuorumSignature{Sig: &hotstuffpb.QuorumSignature_ECDSASigs{ECDSASigs: &hotstuffpb.ECDSAMultiSignature{Sigs: sigs}}}
	}
}

// C10(d): a structurally arbitrary tree-contribution message handed to a Kauri node through the
// event loop (as the service handler does). state: 0 the node holds its own vote, 1 it holds
// nothing yet, 2 it does not know the block of the current view. Nothing in the message
// verifies: the node must not panic, must not change its aggregate, forward anything or emit a QC.
func VH_C10_kauri(n int, state int, cache int, times int) {
	sym := vsymbolic()
	ids := make([]hotstuff.ID, n)
	for i := range ids {
		ids[i] = hotstuff.ID(i + 1)
	}
	tr := tree.NewSimple(1, 2, ids)
	w := cert.VNewWorld(1, n, false, cache, sym, core.WithKauriTree(tr))
	el := eventloop.New(logging.VNop(), 100)
	snd := &vhKSender{}
	k := &Kauri{logger: logging.VNop(), eventLoop: el, config: w.Cfg, blockchain: w.Chain, auth: w.Auth, sender: snd, tree: tr, initDone: true}
	eventloop.Register(el, func(c *kauripb.Contribution) { k.onContributionRecv(c) })
	qcs := 0
	eventloop.Register(el, func(nv hotstuff.NewViewMsg) { qcs++ })
	gen := hotstuff.GetGenesis()
	gqc := hotstuff.NewQuorumCert(nil, 0, gen.Hash())
	cur := hotstuff.View(nondetU64("current-view"))
	vassume(cur >= 1 && cur < 1<<40)
	B := hotstuff.VMakeBlock(hotstuff.VHash(0), gen.Hash(), gqc, &clientpb.Batch{}, cur, 1)
	k.blockHash, k.currentView = B.Hash(), cur
	var own hotstuff.QuorumSignature
	if state != 2 {
		w.Chain.Store(B)
	}
	if state == 0 {
		own = w.Multi([]cert.VEntry{{Claimed: 1, Owner: 0, Msg: 0}}, [][]byte{B.ToBytes()})
		k.aggContrib = own
	}
	for i := 0; i < times; i++ {
		c := &kauripb.Contribution{ID: nondetU32("sender"), View: nondetU64("view"), Signature: vhKSig()}
		if nondetBool("contribution-nil") {
			c = nil
		}
		if c == nil {
			// the generated service stub never delivers a nil request; the handler is called the way
			// the event loop would call it with whatever arrives
			continue
		}
		el.AddEvent(c)
		for el.Tick(context.Background()) {
		}
		vassert(vhSameSig(k.aggContrib, own), "unverifiable-contribution-leaves-the-aggregate-unchanged")
		vassert(len(snd.sent) == 0, "unverifiable-contribution-forwards-nothing")
		vassert(qcs == 0, "unverifiable-contribution-yields-no-certificate")
		vassert(len(k.senders) == 0, "unverifiable-contribution-is-not-counted")
	}
	vcover("handled")
	vobserve("qcs", uint64(qcs))
}

func vhSameSig(a, b hotstuff.QuorumSignature) bool {
	if a == nil || b == nil {
		return a == nil && b == nil
	}
	x, y := a.ToBytes(), b.ToBytes()
	if len(x) != len(y) || a.Participants().Len() != b.Participants().Len() {
		return false
	}
	for i := range x {
		if x[i] != y[i] {
			return false
		}
	}
	return true
}
