package comm

import (
	"context"

	"github.com/relab/hotstuff"
	"github.com/relab/hotstuff/core"
	"github.com/relab/hotstuff/core/eventloop"
	"github.com/relab/hotstuff/core/logging"
	"github.com/relab/hotstuff/internal/proto/clientpb"
	"github.com/relab/hotstuff/internal/proto/hotstuffpb"
	"github.com/relab/hotstuff/internal/proto/kauripb"
	"github.com/relab/hotstuff/internal/tree"
	"github.com/relab/hotstuff/security/cert"
)

type vhKSender struct {
	sent []hotstuff.QuorumSignature
}

func (s *vhKSender) NewView(hotstuff.ID, hotstuff.SyncInfo) error { return nil }
func (s *vhKSender) Vote(hotstuff.ID, hotstuff.PartialCert) error { return nil }
func (s *vhKSender) Timeout(hotstuff.TimeoutMsg)                  {}
func (s *vhKSender) Propose(*hotstuff.ProposeMsg)                 {}
func (s *vhKSender) Sub([]hotstuff.ID) (core.Sender, error)       { return s, nil }
func (s *vhKSender) RequestBlock(context.Context, hotstuff.Hash) (*hotstuff.Block, bool) {
	return nil, false
}
func (s *vhKSender) SendContributionToParent(_ hotstuff.View, sig hotstuff.QuorumSignature) {
	s.sent = append(s.sent, sig)
}

// C09(c): the Kauri tree collector at the root. The root holds its own vote; m contributions
// arrive, each a 1- or 2-entry multi-signature (two: bit i of twoMask) with symbolic claimed
// signers, real owners and signed block, for the current or another view.
func VH_C09_kauri(n int, m int, twoMask int) {
	sym := vsymbolic()
	ids := make([]hotstuff.ID, n)
	for i := range ids {
		ids[i] = hotstuff.ID(i + 1)
	}
	tr := tree.NewSimple(1, 2, ids)
	w := cert.VNewWorld(1, n, false, 0, sym, core.WithKauriTree(tr))
	q := hotstuff.VQuorumRef(n)
	el := eventloop.New(logging.VNop(), 100)
	snd := &vhKSender{}
	k := &Kauri{logger: logging.VNop(), eventLoop: el, config: w.Cfg, blockchain: w.Chain, auth: w.Auth, sender: snd, tree: tr, initDone: true}
	var qcs []hotstuff.QuorumCert
	eventloop.Register(el, func(nv hotstuff.NewViewMsg) {
		if qc, ok := nv.SyncInfo.QC(); ok {
			qcs = append(qcs, qc)
		}
	})
	gen := hotstuff.GetGenesis()
	gqc := hotstuff.NewQuorumCert(nil, 0, gen.Hash())
	B := hotstuff.VMakeBlock(hotstuff.VHash(0), gen.Hash(), gqc, &clientpb.Batch{}, 5, 1)
	B2 := hotstuff.VMakeBlock(hotstuff.VHash(1), gen.Hash(), gqc, &clientpb.Batch{}, 5, 2)
	w.Chain.Store(B)
	msgs := [][]byte{B.ToBytes(), B2.ToBytes()}
	// the collector's own vote (as begin() would install it)
	own := w.Multi([]cert.VEntry{{Claimed: 1, Owner: 0, Msg: 0}}, msgs)
	k.blockHash, k.currentView, k.aggContrib = B.Hash(), B.View(), own
	have := make([]bool, n+1) // ground truth: valid signature of replica s merged
	have[1] = true
	count := 1
	for step := 0; step < m; step++ {
		kk := 1
		if twoMask&(1<<uint(step)) != 0 {
			kk = 2
		}
		es := make([]cert.VEntry, kk)
		for j := range es {
			es[j].Claimed = hotstuff.ID(nondetU32("claimed"))
			es[j].Owner = nondetInt("owner")
			vassume(es[j].Owner >= 0 && es[j].Owner <= n)
			es[j].Msg = nondetInt("msg") & 1
		}
		view := uint64(5)
		if nondetBool("other-view") {
			view = 6
		}
		before := k.aggContrib.Participants().Len()
		k.onContributionRecv(&kauripb.Contribution{ID: uint32(es[0].Claimed), View: view, Signature: hotstuffpb.QuorumSignatureToProto(w.Multi(es, msgs))})
		for el.Tick(context.Background()) {
		}
		// ground truth: the contribution counts iff it is for this view, every entry is a valid
		// signature of a configured replica over B, entries are distinct and none is merged yet
		ok := view == 5
		for j := range es {
			c := int(es[j].Claimed)
			ok = ok && c >= 1 && c <= n && es[j].Owner == c-1 && es[j].Msg == 0
		}
		if kk == 2 {
			ok = ok && es[0].Claimed != es[1].Claimed
		}
		fresh := ok
		for r := 1; r <= n; r++ {
			for j := range es {
				if ok && int(es[j].Claimed) == r && have[r] {
					fresh = false
				}
			}
		}
		if fresh {
			for r := 1; r <= n; r++ {
				for j := range es {
					if int(es[j].Claimed) == r {
						have[r] = true
					}
				}
			}
			count += kk
			vcover("merged")
		}
		after := k.aggContrib.Participants().Len()
		vassert(after == count, "aggregate-holds-exactly-the-valid-distinct-signers")
		if !fresh {
			vassert(after == before, "invalid-overlapping-or-foreign-contribution-changes-nothing")
		}
		vobserve("participants", uint64(after))
	}
	for _, qc := range qcs {
		vcover("qc")
		vassert(w.Auth.VerifyQuorumCert(qc) == nil, "emitted-qc-verifies")
		vassert(qc.Signature().Participants().Len() >= q, "emitted-qc-has-quorum")
	}
	vassert((len(qcs) >= 1) == (count >= q), "qc-emitted-iff-quorum-of-valid-distinct-signers-merged")
}
