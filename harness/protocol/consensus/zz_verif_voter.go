package consensus

import "github.com/relab/hotstuff"

// Harness support: read and set the voter's vote history.
func (v *Voter) VLastVoted() hotstuff.View     { return v.lastVotedView }
func (v *Voter) VSetLastVoted(x hotstuff.View) { v.lastVotedView = x }
