package consensus

import (
	"context"

	"github.com/relab/hotstuff"
	"github.com/relab/hotstuff/core/eventloop"
	"github.com/relab/hotstuff/core/logging"
	"github.com/relab/hotstuff/internal/proto/clientpb"
	"github.com/relab/hotstuff/protocol"
	"github.com/relab/hotstuff/security/cert"
)

type vhRuler struct{ target *hotstuff.Block }

func (r vhRuler) CommitRule(*hotstuff.Block) *hotstuff.Block { return r.target }

// C01 (per-replica lemma): committing target t when block c is already committed and c lies on
// t's chain emits exactly the blocks after c up to t, ancestor first, each once, each followed by
// its batch's execution; abandoned batches are never on the chain.
func VH_C01_commit(k int, maxView int) {
	w := cert.VNewWorld(1, 4, false, 0, vsymbolic())
	el := eventloop.New(logging.VNop(), 100)
	states, err := protocol.NewViewStates(w.Chain, w.Auth)
	vassert(err == nil, "viewstates")
	gen := hotstuff.GetGenesis()
	blocks := make([]*hotstuff.Block, k)
	parent := make([]int, k)
	views := make([]hotstuff.View, k)
	viewPad := make([]hotstuff.View, k+1)
	for i := 0; i < k; i++ {
		p := nondetInt("parent")
		vassume(p >= -1 && p < i)
		v := hotstuff.View(nondetU64("view"))
		vassume(v >= 1 && v <= hotstuff.View(maxView) && v > viewPad[p+1])
		viewPad[i+1] = v
		cand := make([]hotstuff.Hash, k+1)
		cand[0] = gen.Hash()
		for j := 0; j < i; j++ {
			cand[j+1] = blocks[j].Hash()
		}
		blocks[i] = hotstuff.VMakeBlock(hotstuff.VHash(i), cand[p+1], hotstuff.QuorumCert{}, &clientpb.Batch{}, v, 1)
		parent[i], views[i] = p, v
		w.Chain.Store(blocks[i])
	}
	blk := func(i int) *hotstuff.Block {
		if i < 0 {
			return gen
		}
		return blocks[i]
	}
	onChain := func(b, t int) bool { // t is b or an ancestor of b
		for cur, n := b, 0; n <= k+1; n++ {
			if cur == t {
				return true
			}
			if cur < 0 {
				return false
			}
			cur = parent[cur]
		}
		return false
	}
	c := nondetInt("committed")
	t := nondetInt("target")
	// the target lies on one chain with the committed block: above it (the normal case), equal
	// to it, or below it (a commit rule answering from a proposal that carries a stale QC)
	vassume(c >= -1 && c < k && t >= 0 && t < k && (onChain(t, c) || onChain(c, t)))
	stale := !onChain(t, c) || t == c
	states.VSetCommitted(blk(c))
	var commits []*hotstuff.Block
	var order []int // 0 commit event, 1 execute event (interleaving)
	var execs, aborts []*clientpb.Batch
	eventloop.Register(el, func(e hotstuff.CommitEvent) { commits = append(commits, e.Block); order = append(order, 0) })
	eventloop.Register(el, func(e clientpb.ExecuteEvent) { execs = append(execs, e.Batch); order = append(order, 1) })
	eventloop.Register(el, func(e clientpb.AbortEvent) { aborts = append(aborts, e.Batch) })
	cm := NewCommitter(el, logging.VNop(), w.Chain, states, vhRuler{blocks[t]})
	vassert(cm.TryCommit(blocks[t]) == nil, "commit-succeeds")
	for el.Tick(context.Background()) {
	}
	if stale {
		vcover("stale-target")
		vassert(len(commits) == 0 && len(execs) == 0, "stale-target-commits-nothing")
		vassert(states.CommittedBlock() == blk(c), "stale-target-leaves-the-committed-block")
		vassert(states.CommittedBlock().View() >= blk(c).View(), "committed-view-never-decreases")
		return
	}
	// expected: the chain strictly after c up to t, ancestor first
	var want []int
	for cur := t; cur != c && cur >= 0; cur = parent[cur] {
		want = append([]int{cur}, want...)
	}
	vobserve("commits", uint64(len(commits)))
	if len(want) > 1 {
		vcover("several-blocks-committed")
	}
	vassert(len(commits) == len(want), "commits-exactly-the-blocks-after-the-committed-one")
	if len(commits) == len(want) {
		prev := blk(c)
		for i, wi := range want {
			vassert(commits[i] == blocks[wi], "commits-in-chain-order-ancestor-first")
			vassert(commits[i].Parent() == prev.Hash(), "each-committed-blocks-parent-is-the-previously-committed-block")
			vassert(commits[i].View() > prev.View(), "committed-views-strictly-increase")
			prev = commits[i]
		}
	}
	vassert(len(execs) == len(commits), "one-execution-per-commit")
	for i := range execs {
		if i < len(commits) {
			vassert(execs[i] == commits[i].Commands(), "execution-of-the-committed-blocks-batch")
		}
	}
	for i := 0; i+1 < len(order); i += 2 {
		vassert(order[i] == 0 && order[i+1] == 1, "execution-follows-its-commit")
	}
	vassert(states.CommittedBlock() == blocks[t], "committed-block-is-the-target")
	// abandoned batches: not on the committed chain, at most once
	for ai, a := range aborts {
		for i := 0; i < k; i++ {
			if blocks[i].Commands() == a {
				vcover("abandoned")
				vassert(!onChain(t, i), "abandoned-block-not-on-the-committed-chain")
			}
		}
		for bi := 0; bi < ai; bi++ {
			vassert(aborts[bi] != a, "abandoned-reported-once")
		}
	}
	// committing the same target again emits nothing
	n0, x0 := len(commits), len(execs)
	vassert(cm.TryCommit(blocks[t]) == nil, "recommit-succeeds")
	for el.Tick(context.Background()) {
	}
	vassert(len(commits) == n0 && len(execs) == x0, "no-block-committed-twice")
}
