package synchronizer

import (
	"github.com/relab/hotstuff"
	"github.com/relab/hotstuff/security/cert"
)

// vhTimeoutMsg builds replica s's timeout message for view v; the view signature is made by key
// `owner` (0-based; s-1 for an honest message).
func vhTimeoutMsg(w *cert.VWorld, s int, owner int, v hotstuff.View, si hotstuff.SyncInfo, withMsgSig bool) hotstuff.TimeoutMsg {
	one := func(msg []byte) hotstuff.QuorumSignature {
		return w.Multi([]cert.VEntry{{Claimed: hotstuff.ID(s), Owner: owner, Msg: 0}}, [][]byte{msg})
	}
	tm := hotstuff.TimeoutMsg{ID: hotstuff.ID(s), View: v, SyncInfo: si, ViewSignature: one(v.ToBytes())}
	if withMsgSig {
		tm.MsgSignature = one(tm.ToBytes())
	}
	return tm
}

// C08(b): q honest timeouts for view v (from any rotation of the membership) arrive at a replica
// that is at (rel 0), behind (rel 1) or ahead of (rel 2) view v, with one hostile message
// inserted at position pos (kind: 0 none, 1 wrong signature, 2 duplicate sender, 3 another view).
func VH_C08_remote(n int, rule int, rel int, kind int, pos int) {
	r := VNewReplica(n, rule, hotstuff.ID(2), vsymbolic())
	w := r.W
	q := hotstuff.VQuorumRef(n)
	v := hotstuff.View(nondetU64("timeout-view"))
	vassume(v >= 2 && v < 1<<40)
	cur := v
	switch rel {
	case 1:
		cur = v - 1
	case 2:
		cur = v + 1
	}
	r.States.VSetView(cur)
	start := nondetInt("start")
	vassume(start >= 0 && start < n)
	si := r.States.SyncInfo()
	// a replica one view behind may be caught up by the timeouts themselves: they then carry a
	// valid timeout certificate for v-1 (the ordinary catch-up path)
	carried := false
	if rel == 1 && nondetBool("timeouts-carry-tc-for-previous-view") {
		var prev []hotstuff.TimeoutMsg
		for s := 1; s <= q; s++ {
			prev = append(prev, vhTimeoutMsg(w, s, s-1, v-1, si, false))
		}
		tc, err := w.Auth.CreateTimeoutCert(v-1, prev)
		vassert(err == nil, "create-previous-tc")
		si.SetTC(tc)
		carried = true
		vcover("caught-up-by-timeouts")
	}
	good := 0
	emitted := false
	step := 0
	deliver := func(tm hotstuff.TimeoutMsg) {
		r.Sync.OnRemoteTimeout(tm)
		r.Drain()
		step++
	}
	check := func() {
		// a certificate was assembled iff a new-view message carrying a TC for v left the replica
		var tcs []hotstuff.TimeoutCert
		for _, nv := range r.Comm.NewViews {
			if tc, ok := nv.TC(); ok && tc.View() == v {
				tcs = append(tcs, tc)
			}
		}
		if rel != 2 && good >= q {
			vcover("quorum")
			vassert(len(tcs) >= 1, "tc-assembled-when-quorum-timed-out")
		}
		if len(tcs) >= 1 && !emitted {
			emitted = true
			vassert(good >= q, "no-tc-before-quorum")
			vassert(rel != 2, "no-tc-for-a-view-already-left")
			for s := 1; s <= n; s++ {
				vassert(w.AuthFor(s, 0).VerifyTimeoutCert(tcs[0]) == nil, "tc-verifies-at-every-replica")
			}
			vassert(tcs[0].Signature().Participants().Len() == q, "tc-built-from-exactly-the-quorum")
			if rule == 1 {
				agg, ok := r.Comm.NewViews[len(r.Comm.NewViews)-1].AggQC()
				vassert(ok, "aggregate-qc-attached")
				if ok {
					_, err := w.Auth.VerifyAggregateQC(agg)
					vassert(err == nil, "aggregate-qc-verifies")
				}
			}
			if rel == 0 || carried {
				vassert(r.States.View() == v+1, "replica-in-view-v-moves-to-v-plus-1")
			}
		}
	}
	for i := 0; i <= q; i++ {
		if kind != 0 && i == pos {
			switch kind {
			case 1: // signed by the wrong key
				s := (start+n-1)%n + 1
				deliver(vhTimeoutMsg(w, s, (s)%n, v, si, rule == 1))
			case 2: // duplicate of the first honest sender
				s := start%n + 1
				deliver(vhTimeoutMsg(w, s, s-1, v, si, rule == 1))
				if pos == 0 {
					good++
				}
			default: // honest timeout for another view
				s := (start+n-1)%n + 1
				deliver(vhTimeoutMsg(w, s, s-1, v+1, si, rule == 1))
			}
			check()
		}
		if i == q {
			break
		}
		s := (start+i)%n + 1
		if !(kind == 2 && pos == 0 && i == 0) {
			good++
		}
		deliver(vhTimeoutMsg(w, s, s-1, v, si, rule == 1))
		check()
	}
	vobserve("view", uint64(r.States.View()-cur))
}
