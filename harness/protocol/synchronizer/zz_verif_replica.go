package synchronizer

import (
	"context"
	"errors"
	"time"

	"github.com/relab/hotstuff"
	"github.com/relab/hotstuff/core"
	"github.com/relab/hotstuff/core/eventloop"
	"github.com/relab/hotstuff/core/logging"
	"github.com/relab/hotstuff/internal/proto/clientpb"
	"github.com/relab/hotstuff/protocol"
	"github.com/relab/hotstuff/protocol/consensus"
	"github.com/relab/hotstuff/protocol/rules"
	"github.com/relab/hotstuff/protocol/votingmachine"
	"github.com/relab/hotstuff/security/cert"
)

// vhLeader names one (possibly symbolic) leader for every view.
type vhLeader struct{ id hotstuff.ID }

func (l vhLeader) GetLeader(hotstuff.View) hotstuff.ID { return l.id }

type vhDuration struct{}

func (vhDuration) Duration() time.Duration { return time.Second }
func (vhDuration) ViewStarted()            {}
func (vhDuration) ViewSucceeded()          {}
func (vhDuration) ViewTimeout()            {}

// VComm records what the replica sends.
type VComm struct {
	VotedBlocks []*hotstuff.Block
	Proposed    []*hotstuff.ProposeMsg // own proposals handed to the disseminator (after the own vote)
	FailAggregate bool                // the next Aggregate call reports a send failure (after the vote was signed)
	NewViews    []hotstuff.SyncInfo
	Timeouts    []hotstuff.TimeoutMsg
}

func (c *VComm) Aggregate(p *hotstuff.ProposeMsg, _ hotstuff.PartialCert) error {
	c.VotedBlocks = append(c.VotedBlocks, p.Block)
	if c.FailAggregate {
		return errors.New("harness: vote could not be sent") // built here: package-level initialisers of this package are not run by the engine
	}
	return nil
}

func (c *VComm) Disseminate(p *hotstuff.ProposeMsg, _ hotstuff.PartialCert) error {
	c.Proposed = append(c.Proposed, p)
	return nil
}
func (c *VComm) NewView(_ hotstuff.ID, si hotstuff.SyncInfo) error {
	c.NewViews = append(c.NewViews, si)
	return nil
}
func (c *VComm) Vote(hotstuff.ID, hotstuff.PartialCert) error { return nil }
func (c *VComm) Timeout(m hotstuff.TimeoutMsg)                { c.Timeouts = append(c.Timeouts, m) }
func (c *VComm) Propose(*hotstuff.ProposeMsg)                 {}
func (c *VComm) Sub([]hotstuff.ID) (core.Sender, error)       { return c, nil }
func (c *VComm) RequestBlock(context.Context, hotstuff.Hash) (*hotstuff.Block, bool) {
	return nil, false
}

// VReplica is one replica's protocol stack around a Synchronizer, built from the real
// constructors; environment parts (sender, timers, leader schedule) are stubs.
type VReplica struct {
	W       *cert.VWorld
	El      *eventloop.EventLoop
	States  *protocol.ViewStates
	Voter   *consensus.Voter
	Sync    *Synchronizer
	Comm    *VComm
	Views   []hotstuff.ViewChangeEvent
	Commits []*hotstuff.Block
	Ruleset consensus.Ruleset
	VM      *votingmachine.VotingMachine
	Cmds    *clientpb.CommandCache
}

// VCacheSize is the signature cache capacity of replicas built by VNewReplica (0: no cache).
var VCacheSize int

// rule: 0 chained, 1 fast (aggregate QCs), 2 simple. self is never the leader.
func VNewReplica(n int, rule int, leader hotstuff.ID, sym bool) *VReplica {
	return VNewReplicaWith(n, rule, vhLeader{leader}, sym)
}

// vhLeadsOne: the replica under test (id 1) leads exactly view `mine`; replica 2 leads the rest.
type vhLeadsOne struct{ mine hotstuff.View }

func (l vhLeadsOne) GetLeader(v hotstuff.View) hotstuff.ID {
	if v == l.mine {
		return 1
	}
	return 2
}

// vhLeadsFrom: the replica under test (id 1) leads every view from `from` on; replica 2 the earlier ones.
type vhLeadsFrom struct{ from hotstuff.View }

func (l vhLeadsFrom) GetLeader(v hotstuff.View) hotstuff.ID {
	if l.from != 0 && v >= l.from {
		return 1
	}
	return 2
}

type vhRotation interface {
	GetLeader(hotstuff.View) hotstuff.ID
}

// VNewReplicaWith builds the stack around an arbitrary leader schedule.
func VNewReplicaWith(n int, rule int, lr vhRotation, sym bool) *VReplica {
	opts := []core.RuntimeOption{core.WithSyncVerification()} // votes are verified in the collecting call (single thread)
	if rule == 1 {
		opts = append(opts, core.WithAggregateQC())
	}
	w := cert.VNewWorld(1, n, false, VCacheSize, sym, opts...)
	r := &VReplica{W: w, Comm: &VComm{}}
	log := logging.VNop()
	r.El = eventloop.New(log, 100)
	states, err := protocol.NewViewStates(w.Chain, w.Auth)
	if err != nil {
		panic(err)
	}
	r.States = states
	switch rule {
	case 0:
		r.Ruleset = rules.NewChainedHotStuff(log, w.Cfg, w.Chain)
	case 1:
		r.Ruleset = rules.NewFastHotStuff(log, w.Cfg, w.Chain)
	default:
		r.Ruleset = rules.NewSimpleHotStuff(log, w.Cfg, w.Chain)
	}
	committer := consensus.NewCommitter(r.El, log, w.Chain, states, r.Ruleset)
	r.Voter = consensus.NewVoter(w.Cfg, lr, r.Ruleset, r.Comm, w.Auth, committer)
	r.Cmds = clientpb.NewCommandCache(1)
	proposer := consensus.NewProposer(r.El, w.Cfg, w.Chain, states, r.Ruleset, r.Comm, r.Voter, r.Cmds, committer)
	var tr TimeoutRuler
	if rule == 1 {
		tr = newAggregate(w.Cfg, w.Auth)
	} else {
		tr = newSimple(w.Cfg, w.Auth)
	}
	r.Sync = New(r.El, log, w.Cfg, w.Auth, lr, vhDuration{}, tr, proposer, r.Voter, states, r.Comm)
	r.VM = votingmachine.New(log, r.El, w.Cfg, w.Chain, w.Auth, states)
	eventloop.Register(r.El, func(e hotstuff.ViewChangeEvent) { r.Views = append(r.Views, e) })
	eventloop.Register(r.El, func(e hotstuff.CommitEvent) { r.Commits = append(r.Commits, e.Block) })
	return r
}

func (r *VReplica) Drain() {
	for r.El.Tick(context.Background()) {
	}
}
