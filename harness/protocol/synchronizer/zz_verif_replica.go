package synchronizer

import (
	"context"
	"time"

	"github.com/relab/hotstuff"
	"github.com/relab/hotstuff/core"
	"github.com/relab/hotstuff/core/eventloop"
	"github.com/relab/hotstuff/core/logging"
	"github.com/relab/hotstuff/internal/proto/clientpb"
	"github.com/relab/hotstuff/protocol"
	"github.com/relab/hotstuff/protocol/consensus"
	"github.com/relab/hotstuff/protocol/rules"
	"github.com/relab/hotstuff/security/cert"
)

// vhLeader names one (possibly symbolic) leader for every view.
type vhLeader struct{ id hotstuff.ID }

func (l vhLeader) GetLeader(hotstuff.View) hotstuff.ID { return l.id }

type vhDuration struct{}

func (vhDuration) Duration() time.Duration { return time.Second }
func (vhDuration) ViewStarted()            {}
func (vhDuration) ViewSucceeded()          {}
func (vhDuration) ViewTimeout()            {}

// vhComm records what the replica sends.
type vhComm struct {
	votedBlocks []*hotstuff.Block
	newViews    []hotstuff.SyncInfo
	timeouts    []hotstuff.TimeoutMsg
}

func (c *vhComm) Aggregate(p *hotstuff.ProposeMsg, _ hotstuff.PartialCert) error {
	c.votedBlocks = append(c.votedBlocks, p.Block)
	return nil
}
func (c *vhComm) Disseminate(p *hotstuff.ProposeMsg, _ hotstuff.PartialCert) error { return nil }
func (c *vhComm) NewView(_ hotstuff.ID, si hotstuff.SyncInfo) error {
	c.newViews = append(c.newViews, si)
	return nil
}
func (c *vhComm) Vote(hotstuff.ID, hotstuff.PartialCert) error { return nil }
func (c *vhComm) Timeout(m hotstuff.TimeoutMsg)                { c.timeouts = append(c.timeouts, m) }
func (c *vhComm) Propose(*hotstuff.ProposeMsg)                 {}
func (c *vhComm) Sub([]hotstuff.ID) (core.Sender, error)       { return c, nil }
func (c *vhComm) RequestBlock(context.Context, hotstuff.Hash) (*hotstuff.Block, bool) {
	return nil, false
}

// vhReplica is one replica's protocol stack around a Synchronizer, built from the real
// constructors; environment parts (sender, timers, leader schedule) are stubs.
type vhReplica struct {
	w        *cert.VWorld
	el       *eventloop.EventLoop
	states   *protocol.ViewStates
	voter    *consensus.Voter
	sync     *Synchronizer
	comm     *vhComm
	views    []hotstuff.ViewChangeEvent
	commits  []*hotstuff.Block
	ruleset  consensus.Ruleset
}

// rule: 0 chained, 1 fast (aggregate QCs), 2 simple. self is never the leader.
func vhNewReplica(n int, rule int, leader hotstuff.ID, sym bool) *vhReplica {
	var opts []core.RuntimeOption
	if rule == 1 {
		opts = append(opts, core.WithAggregateQC())
	}
	w := cert.VNewWorld(1, n, false, 0, sym, opts...)
	r := &vhReplica{w: w, comm: &vhComm{}}
	log := logging.VNop()
	r.el = eventloop.New(log, 100)
	states, err := protocol.NewViewStates(w.Chain, w.Auth)
	if err != nil {
		panic(err)
	}
	r.states = states
	switch rule {
	case 0:
		r.ruleset = rules.NewChainedHotStuff(log, w.Cfg, w.Chain)
	case 1:
		r.ruleset = rules.NewFastHotStuff(log, w.Cfg, w.Chain)
	default:
		r.ruleset = rules.NewSimpleHotStuff(log, w.Cfg, w.Chain)
	}
	committer := consensus.NewCommitter(r.el, log, w.Chain, states, r.ruleset)
	lr := vhLeader{leader}
	r.voter = consensus.NewVoter(w.Cfg, lr, r.ruleset, r.comm, w.Auth, committer)
	proposer := consensus.NewProposer(r.el, w.Cfg, w.Chain, states, r.ruleset, r.comm, r.voter, clientpb.NewCommandCache(1), committer)
	var tr TimeoutRuler
	if rule == 1 {
		tr = newAggregate(w.Cfg, w.Auth)
	} else {
		tr = newSimple(w.Cfg, w.Auth)
	}
	r.sync = New(r.el, log, w.Cfg, w.Auth, lr, vhDuration{}, tr, proposer, r.voter, states, r.comm)
	eventloop.Register(r.el, func(e hotstuff.ViewChangeEvent) { r.views = append(r.views, e) })
	eventloop.Register(r.el, func(e hotstuff.CommitEvent) { r.commits = append(r.commits, e.Block) })
	return r
}

func (r *vhReplica) drain() {
	for r.el.Tick(context.Background()) {
	}
}
