package synchronizer

import (
	"github.com/relab/hotstuff"
	"github.com/relab/hotstuff/internal/proto/clientpb"
)

// vhSyncStart puts the replica into the state a synchronous suffix starts from: it is in view
// v0, knows block B0 of view v0-1 (child of genesis) and holds B0's certificate as its high QC;
// it has not voted in v0 yet. v0 is symbolic.
func vhSyncStart(r *VReplica, q int, maxView hotstuff.View) (v0 hotstuff.View, B0 *hotstuff.Block) {
	gen := hotstuff.GetGenesis()
	gqc := hotstuff.NewQuorumCert(nil, 0, gen.Hash())
	v0 = hotstuff.View(nondetU64("start-view"))
	vassume(v0 >= 2 && v0 <= maxView)
	B0 = hotstuff.VMakeBlock(hotstuff.VHash(0), gen.Hash(), gqc, &clientpb.Batch{}, v0-1, 2)
	r.W.Chain.Store(B0)
	r.States.VSetView(v0)
	r.States.VSetHighQC(r.W.HonestQC(B0, q, false))
	last := hotstuff.View(nondetU64("last-voted"))
	vassume(last < v0)
	r.Voter.VSetLastVoted(last)
	return v0, B0
}

// C05(a): fault-free synchronous views seen by a follower. In every view the leader (replica 2)
// proposes a block extending the previous one and carrying its certificate. The follower votes
// for each, follows the certified chain view by view, and its commits trail the newest block by
// exactly the ruleset's commit-chain length.
func VH_C05_follower(n int, rule int, rounds int) {
	vclass("aggregate-timeout-rule-drops-regular-qc", rule == 1)
	r := VNewReplica(n, rule, hotstuff.ID(2), vsymbolic())
	q := hotstuff.VQuorumRef(n)
	// committing prunes the store by walking view numbers, so the starting view is kept small here
	v0, B0 := vhSyncStart(r, q, 5)
	L := r.Ruleset.ChainLength()
	chain := []*hotstuff.Block{B0}
	for i := 0; i < rounds; i++ {
		prev := chain[len(chain)-1]
		blk := hotstuff.VMakeBlock(hotstuff.VHash(10+i), prev.Hash(), r.W.HonestQC(prev, q, false), &clientpb.Batch{}, v0+hotstuff.View(i), 2)
		chain = append(chain, blk)
		r.El.AddEvent(hotstuff.ProposeMsg{ID: 2, Block: blk})
		r.Drain()
		vassert(r.States.View() == v0+hotstuff.View(i), "follower-follows-the-certified-chain-view-by-view")
		vassert(len(r.Comm.VotedBlocks) == i+1 && r.Comm.VotedBlocks[i] == blk, "follower-votes-in-every-synchronous-view")
		vassert(r.States.HighQC().BlockHash() == prev.Hash(), "high-qc-is-the-newest-certificate")
		// chain[k] has view v0-1+k; the newest block is chain[i+1]; the block L links back is chain[i+1-L]
		if i+1-L >= 0 {
			vcover("committed")
			vassert(r.States.CommittedBlock() == chain[i+1-L], "commits-trail-the-newest-block-by-the-chain-length")
		} else {
			vassert(r.States.CommittedBlock().View() == 0, "no-commit-before-the-chain-is-long-enough")
		}
	}
	vobserve("view", uint64(r.States.View()-v0))
}

// C05(b): the leader of the next view. The replica (id 1) leads view v0+1 only. It votes for
// replica 2's proposal in v0, collects the votes of a quorum (its own included), and must then
// move to v0+1 and propose at once a block that extends the newly certified one.
func VH_C05_leader(n int, rule int) {
	vclass("aggregate-timeout-rule-drops-regular-qc", rule == 1)
	lr := vhLeadsOne{}
	r := VNewReplicaWith(n, rule, &lr, vsymbolic())
	q := hotstuff.VQuorumRef(n)
	v0, B0 := vhSyncStart(r, q, 5) // the leader's own vote may commit (two-chain rulesets); see the follower harness
	lr.mine = v0 + 1
	r.Cmds.Add(&clientpb.Command{ClientID: 1, SequenceNumber: 1})
	P0 := hotstuff.VMakeBlock(hotstuff.VHash(10), B0.Hash(), r.W.HonestQC(B0, q, false), &clientpb.Batch{}, v0, 2)
	r.El.AddEvent(hotstuff.ProposeMsg{ID: 2, Block: P0})
	r.Drain()
	vassert(len(r.Comm.VotedBlocks) == 1 && r.Comm.VotedBlocks[0] == P0, "next-leader-votes-for-the-proposal")
	start := nondetInt("first-voter")
	vassume(start >= 0 && start < n)
	for i := 0; i < q; i++ {
		s := (start+i)%n + 1
		pc, err := r.W.AuthFor(s, 0).CreatePartialCert(P0)
		vassert(err == nil, "create-vote")
		vassert(len(r.Comm.Proposed) == 0, "no-proposal-before-the-quorum")
		r.VM.CollectVote(hotstuff.VoteMsg{ID: hotstuff.ID(s), PartialCert: pc})
		r.Drain()
	}
	vcover("quorum-collected")
	vassert(r.States.View() == v0+1, "leader-enters-its-view-on-the-quorum-certificate")
	vassert(len(r.Comm.Proposed) == 1, "leader-proposes-at-once")
	if len(r.Comm.Proposed) == 1 {
		b := r.Comm.Proposed[0].Block
		vassert(b.View() == v0+1 && b.Proposer() == 1, "proposal-is-for-the-leaders-view")
		vassert(b.Parent() == P0.Hash() && b.QuorumCert().BlockHash() == P0.Hash(), "proposal-extends-the-newly-certified-block")
		vassert(r.W.AuthFor(2, 0).VerifyQuorumCert(b.QuorumCert()) == nil, "proposals-certificate-verifies-at-other-replicas")
		vassert(r.Voter.VLastVoted() == v0+1, "leader-votes-for-its-own-proposal")
	}
	vobserve("proposed", uint64(len(r.Comm.Proposed)))
}

// C05(c): recovery through timeouts, `rounds` views in a row. The replica's timer fires in view
// v; it broadcasts a correctly signed timeout carrying its sync info, re-sends it while it is
// stuck, and when the timeouts of a quorum (its own included) are in, moves to v+1. There it
// either proposes at once, extending its high QC (lead = 1: it leads every view after v0, so from
// the second round on its previous proposal was lost and is not on the certified chain), or tells
// the next leader (lead = 0).
func VH_C05_timeout(n int, rule int, lead int, rounds int) {
	lr := vhLeadsFrom{}
	r := VNewReplicaWith(n, rule, &lr, vsymbolic())
	q := hotstuff.VQuorumRef(n)
	v0, B0 := vhSyncStart(r, q, 1<<40)
	if lead == 1 {
		lr.from = v0 + 1
		for i := 0; i < rounds; i++ {
			r.Cmds.Add(&clientpb.Command{ClientID: 1, SequenceNumber: uint64(i + 1)})
		}
	}
	for round := 0; round < rounds; round++ {
		v := v0 + hotstuff.View(round)
		sent := len(r.Comm.Timeouts)
		r.Sync.OnLocalTimeout()
		r.Drain()
		vassert(len(r.Comm.Timeouts) == sent+1, "timeout-broadcast-when-the-timer-fires")
		if len(r.Comm.Timeouts) != sent+1 {
			return
		}
		tm := r.Comm.Timeouts[sent]
		vassert(tm.View == v && tm.ID == 1, "timeout-names-the-stuck-view")
		vassert(r.W.AuthFor(2, 0).Verify(tm.ViewSignature, v.ToBytes()) == nil, "timeout-signature-verifies-at-other-replicas")
		hq, hasQC := tm.SyncInfo.QC()
		vassert(hasQC && hq.BlockHash() == B0.Hash(), "timeout-carries-the-high-qc")
		vassert(r.States.View() == v, "a-single-timeout-does-not-move-the-view")
		r.Sync.OnLocalTimeout()
		r.Drain()
		vassert(len(r.Comm.Timeouts) == sent+2 && r.Comm.Timeouts[sent+1].View == v, "timeout-re-sent-while-stuck")
		si := r.States.SyncInfo()
		for i := 0; i < q-1; i++ {
			vassert(r.States.View() == v, "no-advance-before-a-quorum-of-timeouts")
			s := i + 2
			r.Sync.OnRemoteTimeout(vhTimeoutMsg(r.W, s, s-1, v, si, rule == 1))
			r.Drain()
		}
		vcover("quorum-of-timeouts")
		vassert(r.States.View() == v+1, "quorum-of-timeouts-moves-the-replica-on")
		vassert(len(r.Views) >= 1 && r.Views[len(r.Views)-1].View == v+1, "view-change-signalled")
		if lead == 1 {
			vassert(len(r.Comm.Proposed) == round+1, "new-leader-proposes-at-once-after-the-timeout-certificate")
			if len(r.Comm.Proposed) == round+1 {
				b := r.Comm.Proposed[round].Block
				vassert(b.View() == v+1 && b.Parent() == B0.Hash(), "proposal-extends-the-high-qc")
				if rule == 1 {
					vassert(r.Comm.Proposed[round].AggregateQC != nil, "fast-hotstuff-proposal-carries-the-aggregate-qc")
				}
			}
		} else {
			vassert(len(r.Comm.NewViews) >= 1, "next-leader-is-told")
			if len(r.Comm.NewViews) >= 1 {
				nv := r.Comm.NewViews[len(r.Comm.NewViews)-1]
				tc, hasTC := nv.TC()
				vassert(hasTC && tc.View() == v, "new-view-carries-the-timeout-certificate")
				_, hasQ := nv.QC()
				vassert(hasQ, "new-view-carries-the-high-qc")
			}
		}
	}
	vobserve("view", uint64(r.States.View()-v0))
}

// C05(d): catching up. The other replicas timed out of view v0 and the leader of v0+1 already
// proposed (extending the common high QC); that proposal overtakes the timeout certificate and
// reaches the replica while it is still in v0. It must be kept, and once the certificate arrives
// (here: a quorum of timeouts) the replica moves to v0+1 and votes for it.
func VH_C05_early_proposal(n int, rule int) {
	r := VNewReplica(n, rule, hotstuff.ID(2), vsymbolic())
	q := hotstuff.VQuorumRef(n)
	v0, B0 := vhSyncStart(r, q, 1<<40)
	P := hotstuff.VMakeBlock(hotstuff.VHash(10), B0.Hash(), r.W.HonestQC(B0, q, false), &clientpb.Batch{}, v0+1, 2)
	r.El.AddEvent(hotstuff.ProposeMsg{ID: 2, Block: P})
	r.Drain()
	vassert(r.States.View() == v0 && len(r.Comm.VotedBlocks) == 0, "early-proposal-is-not-voted-before-its-view")
	si := r.States.SyncInfo()
	for i := 0; i < q; i++ {
		s := i + 2
		if s > n {
			break
		}
		r.Sync.OnRemoteTimeout(vhTimeoutMsg(r.W, s, s-1, v0, si, rule == 1))
		r.Drain()
	}
	vcover("caught-up")
	vassert(r.States.View() == v0+1, "timeout-certificate-moves-the-lagging-replica-on")
	vassert(len(r.Comm.VotedBlocks) == 1 && r.Comm.VotedBlocks[0] == P, "kept-proposal-is-voted-once-its-view-is-reached")
	vobserve("voted", uint64(len(r.Comm.VotedBlocks)))
}
