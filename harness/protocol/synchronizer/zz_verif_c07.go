package synchronizer

import (
	"github.com/relab/hotstuff"
	"github.com/relab/hotstuff/internal/proto/clientpb"
	"github.com/relab/hotstuff/security/cert"
)

// vhTC builds a timeout certificate for view tv signed by the first cnt replicas; with foreign
// set the last signer signs another view (same length).
func vhTC(w *cert.VWorld, tv hotstuff.View, label hotstuff.View, cnt int, foreign bool) hotstuff.TimeoutCert {
	es := make([]cert.VEntry, cnt)
	for i := range es {
		es[i] = cert.VEntry{Claimed: hotstuff.ID(i + 1), Owner: i, Msg: 0}
		if foreign && i == cnt-1 {
			es[i].Msg = 1
		}
	}
	return hotstuff.NewTimeoutCert(w.Multi(es, [][]byte{tv.ToBytes(), (tv + 1).ToBytes()}), label)
}

// C07: one sync-info message delivered (as a new-view message) to a replica in an arbitrary view
// state. qcSel: 0 none, 1 genesis QC, 2 honest QC for B1, 3 deficient QC for B1, 4 QC for B1 with
// symbolic view label, 5 QC for an unknown block. tcSel: 0 none, 1 honest TC, 2 TC with q-1
// signatures, 3 TC with one signature over another view, 4 TC whose label differs from the signed view.
func VH_C07_syncinfo(n int, rule int, qcSel int, tcSel int) {
	// the replica under test (id 1) may itself lead the next view; it then has a command to
	// propose (whether a proposal can be built depends on the sync info, e.g. not from a TC alone)
	leader := hotstuff.ID(2)
	if nondetBool("replica-leads-next-view") {
		leader = 1
		vcover("as-leader")
	}
	r := VNewReplica(n, rule, leader, vsymbolic())
	if leader == 1 {
		r.Cmds.Add(&clientpb.Command{ClientID: 1, SequenceNumber: 1})
	}
	w := r.W
	q := hotstuff.VQuorumRef(n)
	gen := hotstuff.GetGenesis()
	gqc := hotstuff.NewQuorumCert(nil, 0, gen.Hash())
	v1 := hotstuff.View(nondetU64("v1"))
	vh := hotstuff.View(nondetU64("vh"))
	vassume(v1 >= 1 && v1 < 1<<40 && vh >= 1 && vh < 1<<40)
	B1 := hotstuff.VMakeBlock(hotstuff.VHash(0), gen.Hash(), gqc, &clientpb.Batch{}, v1, 2)
	Bh := hotstuff.VMakeBlock(hotstuff.VHash(1), gen.Hash(), gqc, &clientpb.Batch{}, vh, 3)
	w.Chain.Store(B1)
	w.Chain.Store(Bh)
	// arbitrary state: current view, high QC = genesis QC or the QC of Bh
	cur := hotstuff.View(nondetU64("current-view"))
	vassume(cur >= 1 && cur < 1<<40)
	r.States.VSetView(cur)
	highIsBh := nondetBool("high-qc-is-bh")
	if highIsBh {
		r.States.VSetHighQC(w.HonestQC(Bh, q, false))
		vassume(cur > vh) // the replica left the view of its high QC
	}
	hq0 := r.States.HighQC().View()
	ht0 := r.States.HighTC().View()
	c0 := r.States.CommittedBlock().View()
	// the message
	si := hotstuff.NewSyncInfo()
	qcEvidence := false // a valid QC for a block of view >= cur
	qcValid := false
	switch qcSel {
	case 1:
		si.SetQC(gqc)
		qcValid = true
	case 2:
		si.SetQC(w.HonestQC(B1, q, false))
		qcValid, qcEvidence = true, v1 >= cur
	case 3:
		si.SetQC(w.HonestQC(B1, q, true))
	case 4:
		h := w.HonestQC(B1, q, false)
		label := hotstuff.View(nondetU64("qc-label"))
		si.SetQC(hotstuff.NewQuorumCert(h.Signature(), label, B1.Hash()))
		qcValid = label == v1
		qcEvidence = qcValid && v1 >= cur
	case 5:
		h := w.HonestQC(B1, q, false)
		si.SetQC(hotstuff.NewQuorumCert(h.Signature(), v1, hotstuff.VHash(100)))
	}
	tv := hotstuff.View(nondetU64("tc-view"))
	vassume(tv >= 1 && tv < 1<<40)
	tcEvidence := false
	tcValid := tcSel == 0
	switch tcSel {
	case 1:
		si.SetTC(vhTC(w, tv, tv, q, false))
		tcValid, tcEvidence = true, tv >= cur
	case 2:
		si.SetTC(vhTC(w, tv, tv, q-1, false))
	case 3:
		si.SetTC(vhTC(w, tv, tv, q, true))
	case 4:
		label := hotstuff.View(nondetU64("tc-label"))
		vassume(label >= 1)
		si.SetTC(vhTC(w, tv, label, q, false))
		tcValid = label == tv
		tcEvidence = tcValid && tv >= cur
	}
	r.Sync.OnNewView(hotstuff.NewViewMsg{ID: 3, SyncInfo: si, FromNetwork: true})
	r.Drain()
	view1 := r.States.View()
	vobserve("advanced", uint64(view1-cur))
	vassert(view1 == cur || view1 == cur+1, "view-moves-by-at-most-one")
	vassert(r.States.HighQC().View() >= hq0, "high-qc-view-never-decreases")
	vassert(r.States.HighTC().View() >= ht0, "high-tc-view-never-decreases")
	vassert(r.States.CommittedBlock().View() >= c0, "committed-view-never-decreases")
	if view1 == cur+1 {
		vcover("advanced")
		// (with the aggregate rule a regular QC is currently ignored - finding C05-F1 - so only the
		// TC can be the evidence there; the oracle accepts either, as the property states)
		vassert(qcEvidence || tcEvidence, "view-advances-only-on-valid-certificate-for-this-or-later-view")
		vassert(len(r.Views) == 1 && r.Views[0].View == view1, "view-change-signalled-exactly-once")
	} else {
		vassert(len(r.Views) == 0, "no-view-change-event-without-advance")
	}
	if !tcValid || (rule != 1 && qcSel != 0 && !qcValid) {
		vcover("rejected")
		vassert(view1 == cur, "invalid-certificates-do-not-advance-the-view")
		vassert(r.States.HighQC().View() == hq0, "invalid-certificates-do-not-change-high-qc")
	}
	// conversely, valid evidence for this or a later view moves the replica on (all present
	// certificates valid)
	allValid := tcValid && (qcSel == 0 || qcValid || rule == 1)
	if allValid && (tcEvidence || (rule != 1 && qcEvidence)) {
		vcover("evidence")
		vassert(view1 == cur+1, "valid-evidence-advances-the-view")
	}
	if rule != 1 && tcValid && qcValid && qcSel >= 2 && v1 > hq0 {
		vassert(r.States.HighQC().View() == v1, "valid-newer-qc-becomes-high-qc")
	}
	// the high QC stored always verifies
	vassert(w.Auth.VerifyQuorumCert(r.States.HighQC()) == nil, "stored-high-qc-verifies")
}

// C07(b): aggregate timeout rule. The sync info carries a TC (shape tcSel as above) and an
// aggregate QC assembled from q honest timeout messages for view av that attest the honest QC of
// B1 (aggSel 1), the same with its view label changed afterwards (aggSel 2), or built from q-1
// messages (aggSel 3).
func VH_C07_aggregate(n int, tcSel int, aggSel int) {
	r := VNewReplica(n, 1, hotstuff.ID(2), vsymbolic())
	w := r.W
	q := hotstuff.VQuorumRef(n)
	gen := hotstuff.GetGenesis()
	gqc := hotstuff.NewQuorumCert(nil, 0, gen.Hash())
	v1 := hotstuff.View(nondetU64("v1"))
	vassume(v1 >= 1 && v1 < 1<<40)
	B1 := hotstuff.VMakeBlock(hotstuff.VHash(0), gen.Hash(), gqc, &clientpb.Batch{}, v1, 2)
	w.Chain.Store(B1)
	cur := hotstuff.View(nondetU64("current-view"))
	vassume(cur >= 1 && cur < 1<<40)
	r.States.VSetView(cur)
	hq0 := r.States.HighQC().View()
	av := hotstuff.View(nondetU64("agg-view"))
	vassume(av >= 1 && av < 1<<40)
	qc1 := w.HonestQC(B1, q, false)
	cnt := q
	if aggSel == 3 {
		cnt = q - 1
	}
	var tos []hotstuff.TimeoutMsg
	for s := 1; s <= cnt; s++ {
		tos = append(tos, vhTimeoutMsg(w, s, s-1, av, hotstuff.NewSyncInfoWith(qc1), true))
	}
	agg, err := w.Auth.CreateAggregateQC(av, tos)
	vassert(err == nil, "create-aggqc")
	aggValid := aggSel == 1
	label := av
	if aggSel == 2 {
		label = hotstuff.View(nondetU64("agg-label"))
		agg = hotstuff.NewAggregateQC(agg.QCs(), agg.Sig(), label)
		aggValid = label == av
	}
	si := hotstuff.NewSyncInfo()
	si.SetAggQC(agg)
	tv := hotstuff.View(nondetU64("tc-view"))
	vassume(tv >= 1 && tv < 1<<40)
	tcValid, tcEvidence := tcSel == 0, false
	switch tcSel {
	case 1:
		si.SetTC(vhTC(w, tv, tv, q, false))
		tcValid, tcEvidence = true, tv >= cur
	case 2:
		si.SetTC(vhTC(w, tv, tv, q-1, false))
	}
	r.Sync.OnNewView(hotstuff.NewViewMsg{ID: 3, SyncInfo: si, FromNetwork: true})
	r.Drain()
	view1 := r.States.View()
	vobserve("advanced", uint64(view1-cur))
	aggEvidence := aggValid && label >= cur
	vassert(view1 == cur || view1 == cur+1, "view-moves-by-at-most-one")
	vassert(r.States.HighQC().View() >= hq0, "high-qc-view-never-decreases")
	if view1 == cur+1 {
		vcover("advanced")
		vassert(tcValid && aggValid && (tcEvidence || aggEvidence), "view-advances-only-on-valid-certificate-for-this-or-later-view")
		vassert(len(r.Views) == 1 && r.Views[0].View == view1, "view-change-signalled-exactly-once")
	} else {
		vassert(len(r.Views) == 0, "no-view-change-event-without-advance")
	}
	if !tcValid || !aggValid {
		vcover("rejected")
		vassert(view1 == cur, "invalid-certificates-do-not-advance-the-view")
		vassert(r.States.HighQC().View() == hq0, "invalid-certificates-do-not-change-high-qc")
	} else {
		if tcEvidence || aggEvidence {
			vassert(view1 == cur+1, "valid-evidence-advances-the-view")
		}
		if v1 > hq0 {
			vassert(r.States.HighQC().View() == v1, "attested-high-qc-becomes-high-qc")
		}
	}
	vassert(w.Auth.VerifyQuorumCert(r.States.HighQC()) == nil, "stored-high-qc-verifies")
}
