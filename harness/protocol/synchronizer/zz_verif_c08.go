package synchronizer

import (
	"github.com/relab/hotstuff"
	"github.com/relab/hotstuff/core"
)

type vhPair struct {
	view hotstuff.View
	id   hotstuff.ID
}

func vhCfg(n int) *core.RuntimeConfig {
	cfg := core.NewRuntimeConfig(1, nil)
	for i := 1; i <= n; i++ {
		cfg.AddReplica(&hotstuff.ReplicaInfo{ID: hotstuff.ID(i)})
	}
	return cfg
}

// C08(a): the timeout collector against a ghost bag of stored (view,id) pairs, as a step
// relation over m operations with fully symbolic views and ids.
func VH_C08_collector(n int, m int) {
	cfg := vhCfg(n)
	q := hotstuff.VQuorumRef(n)
	tc := newTimeoutCollector(cfg)
	var ghost []vhPair // stored pairs in arrival order
	for step := 0; step < m; step++ {
		if nondetBool("delete-old") {
			v := hotstuff.View(nondetU64("current-view"))
			tc.deleteOldViews(v)
			var keep []vhPair
			for _, p := range ghost {
				if p.view >= v {
					keep = append(keep, p)
				}
			}
			ghost = keep
		} else {
			t := hotstuff.TimeoutMsg{ID: hotstuff.ID(nondetU32("id")), View: hotstuff.View(nondetU64("view"))}
			dup := false
			for _, p := range ghost {
				if p.view == t.View && p.id == t.ID {
					dup = true
				}
			}
			list, ok := tc.add(t)
			if dup {
				vcover("duplicate")
				vassert(!ok && list == nil, "duplicate-is-ignored")
			} else {
				ghost = append(ghost, vhPair{t.View, t.ID})
				same := 0
				for _, p := range ghost {
					if p.view == t.View {
						same++
					}
				}
				other := len(ghost) - same
				vclass("other-views-stored", other > 0)
				if same >= q {
					vcover("quorum")
					vassert(ok, "quorum-of-same-view-timeouts-is-reported")
					if ok {
						vassert(len(list) == same, "reported-list-has-exactly-the-views-timeouts")
						for _, x := range list {
							vassert(x.View == t.View, "reported-timeouts-are-all-for-that-view")
						}
						for a := range list {
							for b := 0; b < a; b++ {
								vassert(list[a].ID != list[b].ID, "reported-timeouts-have-distinct-senders")
							}
						}
					}
					var keep []vhPair
					for _, p := range ghost {
						if p.view != t.View {
							keep = append(keep, p)
						}
					}
					ghost = keep
				} else {
					vassert(!ok && list == nil, "no-quorum-below-threshold")
				}
			}
		}
		// stored contents equal the ghost bag, in arrival order
		vassert(len(tc.timeouts) == len(ghost), "stored-count-matches")
		if len(tc.timeouts) == len(ghost) {
			for i := range ghost {
				vassert(tc.timeouts[i].View == ghost[i].view && tc.timeouts[i].ID == ghost[i].id, "stored-contents-match")
			}
		}
		vobserve("stored", uint64(len(tc.timeouts)))
	}
}
