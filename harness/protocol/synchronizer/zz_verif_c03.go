package synchronizer

import (
	"github.com/relab/hotstuff"
	"github.com/relab/hotstuff/internal/proto/clientpb"
	"github.com/relab/hotstuff/security/cert"
)

func vhEntries(w *cert.VWorld, m int, nmsgs int) []cert.VEntry {
	es := make([]cert.VEntry, m)
	for j := range es {
		es[j].Claimed = hotstuff.ID(nondetU32("claimed"))
		es[j].Owner = nondetInt("owner")
		vassume(es[j].Owner >= 0 && es[j].Owner <= w.N)
		es[j].Msg = nondetInt("msg")
		vassume(es[j].Msg >= 0 && es[j].Msg < nmsgs)
	}
	return es
}

// C03: one proposal delivered to the real proposal handler of a replica in an arbitrary vote
// state. B1 (view v1) is stored and certified by qc1 (honest quorum); the proposal's block has a
// symbolic view, its parent is genesis / B1 / unknown, its QC names genesis / B1 with an
// honest or a deficient signature and a symbolic view label (qcSel 4: an unsigned QC naming genesis
// with a symbolic label); sender and leader are symbolic.
func VH_C03_proposal(n int, rule int, parentSel int, qcSel int) {
	leader := hotstuff.ID(nondetU32("leader"))
	vassume(leader >= 2 && int(leader) <= n+1)
	r := VNewReplica(n, rule, leader, vsymbolic())
	w := r.W
	q := hotstuff.VQuorumRef(n)
	gen := hotstuff.GetGenesis()
	gqc := hotstuff.NewQuorumCert(nil, 0, gen.Hash())
	v1 := hotstuff.View(nondetU64("v1"))
	vassume(v1 >= 1 && v1 < 1<<40)
	B1 := hotstuff.VMakeBlock(hotstuff.VHash(0), gen.Hash(), gqc, &clientpb.Batch{}, v1, 2)
	w.Chain.Store(B1)
	// arbitrary replica state
	cur := hotstuff.View(nondetU64("current-view"))
	vassume(cur >= 1 && cur < 1<<40)
	r.States.VSetView(cur)
	last0 := hotstuff.View(nondetU64("last-voted"))
	vassume(last0 < 1<<40)
	r.Voter.VSetLastVoted(last0)
	// the proposal
	vb := hotstuff.View(nondetU64("block-view"))
	vassume(vb >= 1 && vb < 1<<40)
	var parent hotstuff.Hash
	switch parentSel {
	case 0:
		parent = gen.Hash()
	case 1:
		parent = B1.Hash()
	default:
		parent = hotstuff.VHash(100)
	}
	var qc hotstuff.QuorumCert
	qcValid := true
	var certified *hotstuff.Block
	switch qcSel {
	case 0: // genesis QC
		qc, certified = gqc, gen
	case 1: // honest QC for B1
		qc, certified = w.HonestQC(B1, q, false), B1
	case 2: // QC for B1 with one bad signature
		qc, certified, qcValid = w.HonestQC(B1, q, true), B1, false
	case 3: // QC for B1 whose view label is symbolic
		h := w.HonestQC(B1, q, false)
		label := hotstuff.View(nondetU64("qc-label"))
		qc, certified = hotstuff.NewQuorumCert(h.Signature(), label, B1.Hash()), B1
		qcValid = label == v1
	default: // an unsigned QC naming genesis with a symbolic view label (only view 0 is the genesis QC)
		label := hotstuff.View(nondetU64("qc-label"))
		qc, certified = hotstuff.NewQuorumCert(nil, label, gen.Hash()), gen
		qcValid = label == 0
	}
	blk := hotstuff.VMakeBlock(hotstuff.VHash(1), parent, qc, &clientpb.Batch{}, vb, hotstuff.ID(nondetU32("proposer")))
	sender := hotstuff.ID(nondetU32("sender"))
	vclass("parent-differs-from-certified-block", parent != certified.Hash())
	vclass("view-not-above-certified-block", vb <= certified.View())
	r.El.AddEvent(hotstuff.ProposeMsg{ID: sender, Block: blk})
	r.Drain()
	last1 := r.Voter.VLastVoted()
	vobserve("voted", uint64(len(r.Comm.VotedBlocks)))
	vassert(last1 >= last0, "vote-history-never-decreases")
	vassert(len(r.Comm.VotedBlocks) <= 1, "at-most-one-vote-per-proposal")
	if len(r.Comm.VotedBlocks) == 1 {
		vcover("voted")
		vassert(r.Comm.VotedBlocks[0] == blk, "voted-for-the-proposed-block")
		vassert(sender == leader, "voted-only-for-the-leaders-proposal")
		vassert(qcValid, "voted-only-with-a-valid-qc")
		vassert(vb > last0, "voted-only-above-last-voted-view")
		vassert(last1 == vb, "vote-recorded-in-history")
		vassert(parent == certified.Hash(), "voted-block-extends-the-certified-block")
		vassert(vb > certified.View(), "voted-block-view-above-certified-block")
	} else {
		vassert(last1 == last0, "no-vote-leaves-history-unchanged")
	}
}

// C03(b): after a local timeout in view v the replica does not vote in v or earlier.
func VH_C03_timeout_then_proposal(n int, rule int) {
	leader := hotstuff.ID(nondetU32("leader"))
	vassume(leader >= 2 && int(leader) <= n)
	r := VNewReplica(n, rule, leader, vsymbolic())
	cur := hotstuff.View(nondetU64("current-view"))
	vassume(cur >= 1 && cur < 1<<40)
	r.States.VSetView(cur)
	last0 := hotstuff.View(nondetU64("last-voted"))
	vassume(last0 < 1<<40)
	r.Voter.VSetLastVoted(last0)
	r.Sync.OnLocalTimeout()
	r.Drain()
	vassert(len(r.Comm.Timeouts) >= 1, "timeout-message-sent")
	vassert(r.Voter.VLastVoted() >= cur && r.Voter.VLastVoted() >= last0, "timeout-stops-voting-for-the-view")
	view1 := r.States.View()
	gen := hotstuff.GetGenesis()
	gqc := hotstuff.NewQuorumCert(nil, 0, gen.Hash())
	vb := hotstuff.View(nondetU64("block-view"))
	vassume(vb >= 1 && vb < 1<<40)
	blk := hotstuff.VMakeBlock(hotstuff.VHash(1), gen.Hash(), gqc, &clientpb.Batch{}, vb, leader)
	r.El.AddEvent(hotstuff.ProposeMsg{ID: leader, Block: blk})
	r.Drain()
	if len(r.Comm.VotedBlocks) > 0 {
		vcover("voted-after-timeout")
		vassert(vb > cur, "no-vote-in-or-below-a-timed-out-view")
	}
	_ = view1
}

// C03(c): the replica is itself the leader of the next view: it receives sync info with an
// honest QC for B1 (any view relation to its current view), advances, proposes and votes for
// its own proposal. Its own vote must obey the same rules.
func VH_C03_leader_step(n int, rule int) {
	r := VNewReplica(n, rule, hotstuff.ID(1), vsymbolic()) // replica 1 leads every view
	w := r.W
	q := hotstuff.VQuorumRef(n)
	gen := hotstuff.GetGenesis()
	gqc := hotstuff.NewQuorumCert(nil, 0, gen.Hash())
	v1 := hotstuff.View(nondetU64("v1"))
	vassume(v1 >= 1 && v1 < 1<<40)
	B1 := hotstuff.VMakeBlock(hotstuff.VHash(0), gen.Hash(), gqc, &clientpb.Batch{}, v1, 2)
	w.Chain.Store(B1)
	cur := hotstuff.View(nondetU64("current-view"))
	vassume(cur >= 1 && cur < 1<<40)
	r.States.VSetView(cur)
	last0 := hotstuff.View(nondetU64("last-voted"))
	vassume(last0 < 1<<40)
	r.Voter.VSetLastVoted(last0)
	r.Cmds.Add(&clientpb.Command{ClientID: 1, SequenceNumber: 1})
	r.Sync.OnNewView(hotstuff.NewViewMsg{ID: 3, SyncInfo: hotstuff.NewSyncInfoWith(w.HonestQC(B1, q, false)), FromNetwork: true})
	r.Drain()
	last1 := r.Voter.VLastVoted()
	vobserve("proposed", uint64(len(r.Comm.Proposed)))
	vassert(last1 >= last0, "vote-history-never-decreases")
	if r.States.View() == cur+1 {
		vcover("advanced-as-leader")
	}
	for _, p := range r.Comm.Proposed {
		vcover("own-proposal-voted")
		b := p.Block
		qc := b.QuorumCert()
		vassert(b.View() > qc.View(), "own-vote-only-for-a-block-above-its-qc")
		vassert(b.Parent() == qc.BlockHash(), "own-vote-only-for-a-block-extending-its-qc")
		vassert(b.View() > last0, "own-vote-only-above-last-voted-view")
		vassert(last1 == b.View(), "own-vote-recorded-in-history")
	}
	if len(r.Comm.Proposed) == 0 {
		vassert(last1 == last0, "no-vote-leaves-history-unchanged")
	}
}

// C03(d): two proposals in a row from the leader (an equivocating leader may send two blocks for
// one view); the first vote may fail to leave the replica (aggregator error). Whatever happens,
// the blocks the replica signed have strictly increasing views.
func VH_C03_two_proposals(n int, rule int) {
	leader := hotstuff.ID(2)
	r := VNewReplica(n, rule, leader, vsymbolic())
	gen := hotstuff.GetGenesis()
	gqc := hotstuff.NewQuorumCert(nil, 0, gen.Hash())
	cur := hotstuff.View(nondetU64("current-view"))
	vassume(cur >= 1 && cur < 1<<40)
	r.States.VSetView(cur)
	last0 := hotstuff.View(nondetU64("last-voted"))
	vassume(last0 < 1<<40)
	r.Voter.VSetLastVoted(last0)
	r.Comm.FailAggregate = nondetBool("first-vote-cannot-be-sent")
	for i := 0; i < 2; i++ {
		vb := hotstuff.View(nondetU64("block-view"))
		vassume(vb >= 1 && vb < 1<<40)
		blk := hotstuff.VMakeBlock(hotstuff.VHash(10+i), gen.Hash(), gqc, &clientpb.Batch{}, vb, leader)
		r.El.AddEvent(hotstuff.ProposeMsg{ID: leader, Block: blk})
		r.Drain()
		r.Comm.FailAggregate = false
	}
	vobserve("signed", uint64(len(r.Comm.VotedBlocks)))
	if len(r.Comm.VotedBlocks) == 2 {
		vcover("two-votes")
		vassert(r.Comm.VotedBlocks[1].View() > r.Comm.VotedBlocks[0].View(), "at-most-one-signed-block-per-view-in-increasing-order")
	}
	for _, b := range r.Comm.VotedBlocks {
		vassert(b.View() > last0, "signed-only-above-the-initial-vote-history")
	}
	vassert(r.Voter.VLastVoted() >= last0, "vote-history-never-decreases")
}
