package server

import (
	"context"
	"errors"
	"reflect"
	"sync"
	"unsafe"

	"github.com/relab/gorums"
	"github.com/relab/hotstuff/internal/proto/clientpb"
)

// vhServerCtx builds the context the gorums server hands to ExecCommand. Its fields are
// unexported; natively they are filled in through reflection (a fresh Once and a locked mutex, as
// newServerCtx does), in the engine ServerCtx.Release is redirected to vhRelease.
func vhServerCtx() gorums.ServerCtx {
	sc := gorums.ServerCtx{Context: context.Background()}
	if !vsymbolic() {
		v := reflect.ValueOf(&sc).Elem()
		once := v.FieldByName("once")
		reflect.NewAt(once.Type(), unsafe.Pointer(once.UnsafeAddr())).Elem().Set(reflect.ValueOf(new(sync.Once)))
		mu := new(sync.Mutex)
		mu.Lock()
		m := v.FieldByName("mut")
		reflect.NewAt(m.Type(), unsafe.Pointer(m.UnsafeAddr())).Elem().Set(reflect.ValueOf(mu))
	}
	return sc
}

func vhRelease(*gorums.ServerCtx) {}

// C06(d): the client-facing handler. A request waits until its command is executed; a
// resubmission of the same (client, sequence number) before execution must not hand the first
// waiter an outcome (a closed channel reads as success). Then the command is executed: the
// waiter registered last gets exactly one success outcome.
func VH_C06_resubmit(same int) {
	marks := []uint64{0, 0, 0}
	srv := vhIO(0, marks)
	srv.cmdCache = clientpb.NewCommandCache(1)
	seq := nondetU64("seq")
	vassume(seq >= 1)
	cmd := &clientpb.Command{ClientID: 1, SequenceNumber: seq, Data: []byte{1}}
	b1 := vblocked(func() { _, _ = srv.ExecCommand(vhServerCtx(), cmd) })
	vassert(b1, "request-waits-until-the-command-is-executed")
	ch1 := srv.awaitingCmds[cmd.ID()]
	vassert(ch1 != nil, "waiter-registered")
	seq2 := seq
	if same == 0 {
		seq2 = nondetU64("seq")
		vassume(seq2 >= 1 && seq2 != seq)
	}
	cmd2 := &clientpb.Command{ClientID: 1, SequenceNumber: seq2, Data: []byte{1}}
	b2 := vblocked(func() { _, _ = srv.ExecCommand(vhServerCtx(), cmd2) })
	vassert(b2, "second-request-waits-as-well")
	vassert(srv.CmdCount() == 0, "nothing-executed-by-submitting")
	// a closed channel would read as a success outcome: probing it with a send panics exactly then
	// (natively the send may be taken by the parked first handler, which then returns this error)
	probe := errors.New("probe")
	closed := vpanics(func() {
		select {
		case ch1 <- probe:
		default:
		}
	})
	vassert(!closed, "no-outcome-for-a-waiting-request-before-execution")
	vcover("resubmitted")
	vobserve("same", uint64(same))
}
