package server

import (
	"context"
	"strconv"

	"github.com/relab/gorums"
	"github.com/relab/hotstuff"
	"github.com/relab/hotstuff/core"
	"github.com/relab/hotstuff/core/logging"
	"github.com/relab/hotstuff/internal/proto/clientpb"
	"github.com/relab/hotstuff/internal/proto/hotstuffpb"
	"github.com/relab/hotstuff/protocol/synchronizer"
	"google.golang.org/grpc/metadata"
	"google.golang.org/grpc/peer"
	"google.golang.org/protobuf/types/known/timestamppb"
)

var vhPeer hotstuff.ID

// vhPeerID replaces RuntimeConfig.PeerIDFromContext in the engine (natively the real function
// reads the id from the request metadata built by vhCtx).
func vhPeerID(_ *core.RuntimeConfig, _ context.Context) (hotstuff.ID, error) { return vhPeer, nil }

func vhCtx(id hotstuff.ID) gorums.ServerCtx {
	vhPeer = id
	ctx := context.Background()
	if !vsymbolic() {
		ctx = metadata.NewIncomingContext(peer.NewContext(ctx, &peer.Peer{}), metadata.Pairs("id", strconv.Itoa(int(id))))
	}
	return gorums.ServerCtx{Context: ctx}
}

func vhBytes(name string) []byte {
	switch k := nondetInt(name); {
	case k == 0:
		return nil
	case k == 1:
		return []byte{nondetU8("byte")}
	case k == 2:
		b := make([]byte, 32)
		b[0] = nondetU8("byte")
		return b
	default:
		vassume(k == 3)
		return make([]byte, 33)
	}
}

// vhSig: every structural shape of a wire signature (BLS excluded: its decoding enters the
// pairing library, which the engine cannot execute).
func vhSig(full bool) *hotstuffpb.QuorumSignature {
	if !full {
		if nondetBool("sig-nil") {
			return nil
		}
		return &hotstuffpb.QuorumSignature{Sig: &hotstuffpb.QuorumSignature_ECDSASigs{ECDSASigs: &hotstuffpb.ECDSAMultiSignature{Sigs: []*hotstuffpb.ECDSASignature{
			{Signer: nondetU32("signer"), Sig: []byte{nondetU8("byte")}}}}}}
	}
	switch k := nondetInt("sig-shape"); {
	case k == 0:
		return nil
	case k == 1:
		return &hotstuffpb.QuorumSignature{}
	case k == 2:
		return &hotstuffpb.QuorumSignature{Sig: &hotstuffpb.QuorumSignature_ECDSASigs{}}
	case k == 3:
		return &hotstuffpb.QuorumSignature{Sig: &hotstuffpb.QuorumSignature_ECDSASigs{ECDSASigs: &hotstuffpb.ECDSAMultiSignature{}}}
	case k == 4:
		return &hotstuffpb.QuorumSignature{Sig: &hotstuffpb.QuorumSignature_ECDSASigs{ECDSASigs: &hotstuffpb.ECDSAMultiSignature{Sigs: []*hotstuffpb.ECDSASignature{nil}}}}
	case k == 5:
		return &hotstuffpb.QuorumSignature{Sig: &hotstuffpb.QuorumSignature_ECDSASigs{ECDSASigs: &hotstuffpb.ECDSAMultiSignature{Sigs: []*hotstuffpb.ECDSASignature{
			{Signer: nondetU32("signer"), Sig: []byte{nondetU8("byte")}}, {Signer: nondetU32("signer")}}}}}
	case k == 6:
		return &hotstuffpb.QuorumSignature{Sig: &hotstuffpb.QuorumSignature_EDDSASigs{EDDSASigs: &hotstuffpb.EDDSAMultiSignature{Sigs: []*hotstuffpb.EDDSASignature{nil}}}}
	case k == 7:
		return &hotstuffpb.QuorumSignature{Sig: &hotstuffpb.QuorumSignature_EDDSASigs{EDDSASigs: &hotstuffpb.EDDSAMultiSignature{Sigs: []*hotstuffpb.EDDSASignature{
			{Signer: nondetU32("signer"), Sig: []byte{nondetU8("byte")}}}}}}
	case k == 8:
		return &hotstuffpb.QuorumSignature{Sig: &hotstuffpb.QuorumSignature_EDDSASigs{}}
	case k == 9:
		// the BLS variant of the oneof with bytes that cannot be a compressed point (wrong length);
		// the receiver's own scheme does not matter for decoding
		return &hotstuffpb.QuorumSignature{Sig: &hotstuffpb.QuorumSignature_BLS12Sig{BLS12Sig: &hotstuffpb.BLS12AggregateSignature{Sig: []byte{nondetU8("byte")}, Participants: []byte{0x05}}}}
	default:
		vassume(k == 10)
		return &hotstuffpb.QuorumSignature{Sig: &hotstuffpb.QuorumSignature_BLS12Sig{}}
	}
}

func vhHash(full bool) []byte {
	if full {
		return vhBytes("hash-shape")
	}
	b := make([]byte, 32)
	b[0] = nondetU8("byte")
	return b
}

func vhQC(full bool) *hotstuffpb.QuorumCert {
	if nondetBool("qc-nil") {
		return nil
	}
	return &hotstuffpb.QuorumCert{Sig: vhSig(full), Hash: vhHash(full), View: nondetU64("view")}
}

func vhTC(full bool) *hotstuffpb.TimeoutCert {
	if nondetBool("tc-nil") {
		return nil
	}
	return &hotstuffpb.TimeoutCert{Sig: vhSig(full), View: nondetU64("view")}
}

func vhAgg(full bool) *hotstuffpb.AggQC {
	switch k := nondetInt("agg-shape"); {
	case k == 0:
		return nil
	case k == 1:
		return &hotstuffpb.AggQC{Sig: vhSig(full), View: nondetU64("view")}
	default:
		vassume(k == 2)
		return &hotstuffpb.AggQC{QCs: map[uint32]*hotstuffpb.QuorumCert{nondetU32("id"): vhQC(full)}, Sig: vhSig(false), View: nondetU64("view")}
	}
}

// focus: 1 QC, 2 TC, 3 aggregate QC is enumerated in full; the other parts take two or three
// representative shapes.
func vhSyncInfo(focus int) *hotstuffpb.SyncInfo {
	if nondetBool("si-nil") {
		return nil
	}
	return &hotstuffpb.SyncInfo{QC: vhQC(focus == 1), TC: vhTC(focus == 2), AggQC: vhAgg(focus == 3)}
}

type vhSnap struct {
	view, high, voted, committed hotstuff.View
}

func vhSnapshot(r *synchronizer.VReplica) vhSnap {
	return vhSnap{r.States.View(), r.States.HighQC().View(), r.Voter.VLastVoted(), r.States.CommittedBlock().View()}
}

// C10: one structurally arbitrary wire message handed to the real service handler of a running
// replica, then dispatched through the real event loop to the real protocol handlers.
// msg: 0 Vote, 1 NewView, 2 Timeout, 3 Propose, 4 RequestBlock. rule: 0 chained, 1 fast+aggregate QC.
func VH_C10_message(msg int, rule int, focus int, cache int) {
	synchronizer.VCacheSize = cache
	r := synchronizer.VNewReplica(4, rule, hotstuff.ID(2), vsymbolic())
	srv := &Server{blockchain: r.W.Chain, eventLoop: r.El, logger: logging.VNop(), config: r.W.Cfg}
	impl := &serviceImpl{srv}
	cur := hotstuff.View(nondetU64("current-view"))
	vassume(cur >= 1 && cur < 1<<40)
	r.States.VSetView(cur)
	before := vhSnapshot(r)
	ctx := vhCtx(hotstuff.ID(nondetU32("peer")))
	switch msg {
	case 0:
		var pc *hotstuffpb.PartialCert
		if !nondetBool("vote-nil") {
			pc = &hotstuffpb.PartialCert{Sig: vhSig(true), Hash: vhBytes("hash-shape")}
		}
		impl.Vote(ctx, pc)
	case 1:
		impl.NewView(ctx, vhSyncInfo(focus))
	case 2:
		var tm *hotstuffpb.TimeoutMsg
		if !nondetBool("timeout-nil") {
			tm = &hotstuffpb.TimeoutMsg{View: nondetU64("view"), SyncInfo: vhSyncInfo(focus), ViewSig: vhSig(focus == 4), MsgSig: vhSig(focus == 5)}
		}
		impl.Timeout(ctx, tm)
	case 3:
		var p *hotstuffpb.Proposal
		if !nondetBool("proposal-nil") {
			p = &hotstuffpb.Proposal{AggQC: vhAgg(focus == 3)}
			if !nondetBool("block-nil") {
				b := &hotstuffpb.Block{Parent: vhHash(focus == 4), QC: vhQC(focus == 1), View: nondetU64("view"), Proposer: nondetU32("proposer")}
				if nondetBool("with-commands") {
					b.Commands = &clientpb.Batch{}
				}
				if nondetBool("with-timestamp") {
					b.Timestamp = &timestamppb.Timestamp{Seconds: 1700000000}
				}
				p.Block = b
			}
		}
		impl.Propose(ctx, p)
	default:
		var bh *hotstuffpb.BlockHash
		if !nondetBool("blockhash-nil") {
			bh = &hotstuffpb.BlockHash{Hash: vhBytes("hash-shape")}
		}
		blk, err := impl.RequestBlock(ctx, bh)
		vassert((blk == nil) != (err == nil), "block-or-error")
	}
	r.Drain()
	vcover("handled")
	after := vhSnapshot(r)
	vobserve("view", uint64(after.view-before.view))
	vassert(after == before, "unverifiable-input-leaves-protocol-state-unchanged")
	vassert(len(r.Comm.VotedBlocks) == 0, "no-vote-on-unverifiable-input")
}

// vhJunkSig: a signature list that passes every structural test (q distinct configured signers,
// non-empty signature bytes) but in which no entry verifies.
func vhJunkSig(q int, ed bool) *hotstuffpb.QuorumSignature {
	if ed {
		var sigs []*hotstuffpb.EDDSASignature
		for s := 1; s <= q; s++ {
			sigs = append(sigs, &hotstuffpb.EDDSASignature{Signer: uint32(s), Sig: []byte{nondetU8("byte")}})
		}
		return &hotstuffpb.QuorumSignature{Sig: &hotstuffpb.QuorumSignature_EDDSASigs{EDDSASigs: &hotstuffpb.EDDSAMultiSignature{Sigs: sigs}}}
	}
	var sigs []*hotstuffpb.ECDSASignature
	for s := 1; s <= q; s++ {
		sigs = append(sigs, &hotstuffpb.ECDSASignature{Signer: uint32(s), Sig: []byte{nondetU8("byte")}})
	}
	return &hotstuffpb.QuorumSignature{Sig: &hotstuffpb.QuorumSignature_ECDSASigs{ECDSASigs: &hotstuffpb.ECDSAMultiSignature{Sigs: sigs}}}
}

// C10(c): well-shaped forgeries, delivered repeatedly. The message names a block the replica
// knows, labels the certificate with that block's view, lists a full quorum of configured
// signers - only the signature bytes are junk. The same message is handed over `times` times (a
// peer can resend): the state must be unchanged after every delivery.
// msg: 1 NewView with QC, 2 NewView with TC, 3 Timeout, 0 Vote, 4 Proposal with forged QC.
func VH_C10_forged(msg int, rule int, cache int, times int) {
	synchronizer.VCacheSize = cache
	r := synchronizer.VNewReplica(4, rule, hotstuff.ID(2), vsymbolic())
	srv := &Server{blockchain: r.W.Chain, eventLoop: r.El, logger: logging.VNop(), config: r.W.Cfg}
	impl := &serviceImpl{srv}
	q := hotstuff.VQuorumRef(4)
	gen := hotstuff.GetGenesis()
	cur := hotstuff.View(nondetU64("current-view"))
	vassume(cur >= 1 && cur < 1<<40)
	vB := hotstuff.View(nondetU64("block-view"))
	vassume(vB >= 1 && vB < 1<<40)
	B := hotstuff.VMakeBlock(hotstuff.VHash(0), gen.Hash(), hotstuff.NewQuorumCert(nil, 0, gen.Hash()), &clientpb.Batch{}, vB, 1)
	r.W.Chain.Store(B)
	r.States.VSetView(cur)
	before := vhSnapshot(r)
	bh := B.Hash()
	ed := r.W.Ed
	peerID := hotstuff.ID(nondetU32("peer"))
	vassume(peerID >= 1 && peerID <= 4)
	for i := 0; i < times; i++ {
		ctx := vhCtx(peerID)
		switch msg {
		case 0:
			one := vhJunkSig(1, ed)
			impl.Vote(ctx, &hotstuffpb.PartialCert{Sig: one, Hash: bh[:]})
		case 1:
			impl.NewView(ctx, &hotstuffpb.SyncInfo{QC: &hotstuffpb.QuorumCert{Sig: vhJunkSig(q, ed), Hash: bh[:], View: uint64(vB)}})
		case 2:
			impl.NewView(ctx, &hotstuffpb.SyncInfo{TC: &hotstuffpb.TimeoutCert{Sig: vhJunkSig(q, ed), View: nondetU64("view")}})
		case 3:
			impl.Timeout(ctx, &hotstuffpb.TimeoutMsg{View: nondetU64("view"),
				SyncInfo: &hotstuffpb.SyncInfo{QC: &hotstuffpb.QuorumCert{Sig: vhJunkSig(q, ed), Hash: bh[:], View: uint64(vB)}},
				ViewSig:  vhJunkSig(1, ed), MsgSig: vhJunkSig(1, ed)})
		default:
			blk := &hotstuffpb.Block{Parent: bh[:], QC: &hotstuffpb.QuorumCert{Sig: vhJunkSig(q, ed), Hash: bh[:], View: uint64(vB)},
				View: nondetU64("view"), Proposer: uint32(peerID), Commands: &clientpb.Batch{}, Timestamp: &timestamppb.Timestamp{Seconds: 1700000000}}
			impl.Propose(ctx, &hotstuffpb.Proposal{Block: blk})
		}
		r.Drain()
		after := vhSnapshot(r)
		vassert(after == before, "forged-certificate-leaves-protocol-state-unchanged-on-every-delivery")
		vassert(len(r.Comm.VotedBlocks) == 0, "no-vote-on-forged-certificate")
	}
	vcover("delivered")
	vobserve("view", uint64(r.States.View()))
}
