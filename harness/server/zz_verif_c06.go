package server

import (
	"bytes"
	"crypto/sha256"

	"github.com/relab/hotstuff/core/logging"
	"github.com/relab/hotstuff/internal/proto/clientpb"
)

func vhIO(seen int, marks []uint64) *ClientIO {
	srv := &ClientIO{
		logger:             logging.VNop(),
		awaitingCmds:       make(map[clientpb.MessageID]chan<- error),
		hash:               sha256.New(),
		lastExecutedSeqNum: make(map[uint32]uint64),
	}
	for cl := 1; cl <= 2; cl++ {
		if seen&(1<<uint(cl-1)) != 0 {
			srv.lastExecutedSeqNum[uint32(cl)] = marks[cl]
		}
	}
	return srv
}

func vhCmds(k int) []*clientpb.Command {
	var cmds []*clientpb.Command
	for i := 0; i < k; i++ {
		cl := uint32(1)
		if nondetBool("client2") {
			cl = 2
		}
		cmds = append(cmds, &clientpb.Command{ClientID: cl, SequenceNumber: nondetU64("seq"), Data: []byte{nondetU8("data")}})
	}
	return cmds
}

// C06(a): Exec of a batch of k commands from an arbitrary execution state (seen: which of the
// two clients have executed before, with symbolic last sequence numbers). await: bit i set means
// a client is waiting on command i.
func VH_C06_exec(k int, seen int, await int) {
	marks := []uint64{0, nondetU64("last"), nondetU64("last")}
	srv := vhIO(seen, marks)
	cmds := vhCmds(k)
	chans := make([]chan error, k)
	for i, c := range cmds {
		if await&(1<<uint(i)) != 0 {
			ch := make(chan error, 4)
			chans[i] = ch
			// a later command with the same id replaces the waiter (as ExecCommand would)
			srv.awaitingCmds[c.ID()] = ch
		}
	}
	count0 := srv.CmdCount()
	srv.Exec(&clientpb.Batch{Commands: cmds})
	// reference
	has := []bool{false, seen&1 != 0, seen&2 != 0}
	last := []uint64{0, marks[1], marks[2]}
	executed := make([]bool, k)
	ref := sha256.New()
	n := 0
	for i, c := range cmds {
		if !has[c.ClientID] || c.SequenceNumber > last[c.ClientID] {
			executed[i] = true
			has[c.ClientID], last[c.ClientID] = true, c.SequenceNumber
			_, _ = ref.Write(c.Data)
			n++
		}
	}
	vobserve("executed", uint64(n))
	if n < k {
		vcover("some-duplicate")
	}
	if n > 0 {
		vcover("some-executed")
	}
	vassert(srv.CmdCount() == count0+uint32(n), "count-grows-by-the-fresh-commands")
	vassert(bytes.Equal(srv.Hash().Sum(nil), ref.Sum(nil)), "digest-covers-exactly-the-fresh-commands-in-order")
	for cl := uint32(1); cl <= 2; cl++ {
		got, ok := srv.lastExecutedSeqNum[cl]
		vassert(ok == has[cl] && (!ok || got == last[cl]), "last-executed-is-the-highest-executed-sequence-number")
	}
	// no (client, seq) executed twice
	for i := range cmds {
		for j := 0; j < i; j++ {
			if executed[i] && executed[j] {
				vassert(cmds[i].ClientID != cmds[j].ClientID || cmds[i].SequenceNumber != cmds[j].SequenceNumber, "no-command-executed-twice")
			}
		}
	}
	// waiters: at most one outcome each, success only for an executed command, table emptied
	for i, ch := range chans {
		if ch == nil {
			continue
		}
		vassert(len(ch) <= 1, "a-waiter-gets-at-most-one-outcome")
		if len(ch) == 1 {
			err := <-ch
			if err == nil {
				okExec := false
				for j := range cmds {
					if executed[j] && cmds[j].ClientID == cmds[i].ClientID && cmds[j].SequenceNumber == cmds[i].SequenceNumber {
						okExec = true
					}
				}
				vassert(okExec, "success-only-for-an-executed-command")
			}
		}
		_, still := srv.awaitingCmds[cmds[i].ID()]
		vassert(!still, "answered-waiter-is-removed")
	}
}

// C06(b): batch boundaries are irrelevant: Exec(b1); Exec(b2) leaves the same state as Exec(b1++b2).
func VH_C06_split(k int, cut int, seen int) {
	marks := []uint64{0, nondetU64("last"), nondetU64("last")}
	a := vhIO(seen, marks)
	b := vhIO(seen, marks)
	cmds := vhCmds(k)
	a.Exec(&clientpb.Batch{Commands: cmds[:cut]})
	a.Exec(&clientpb.Batch{Commands: cmds[cut:]})
	b.Exec(&clientpb.Batch{Commands: cmds})
	vassert(a.CmdCount() == b.CmdCount(), "same-count-whatever-the-batch-boundaries")
	vassert(bytes.Equal(a.Hash().Sum(nil), b.Hash().Sum(nil)), "same-digest-whatever-the-batch-boundaries")
	for cl := uint32(1); cl <= 2; cl++ {
		x, okx := a.lastExecutedSeqNum[cl]
		y, oky := b.lastExecutedSeqNum[cl]
		vassert(okx == oky && x == y, "same-execution-state-whatever-the-batch-boundaries")
	}
	vobserve("count", uint64(a.CmdCount()))
	vcover("split")
}

// C06(c): Abort answers every waiter of the batch once with an error and changes nothing else.
func VH_C06_abort(k int, await int) {
	marks := []uint64{0, nondetU64("last"), nondetU64("last")}
	srv := vhIO(3, marks)
	cmds := vhCmds(k)
	chans := make([]chan error, k)
	for i, c := range cmds {
		if await&(1<<uint(i)) != 0 {
			ch := make(chan error, 4)
			chans[i] = ch
			srv.awaitingCmds[c.ID()] = ch
		}
	}
	before := srv.Hash().Sum(nil)
	srv.Abort(&clientpb.Batch{Commands: cmds})
	vassert(srv.CmdCount() == 0, "abort-executes-nothing")
	vassert(bytes.Equal(before, srv.Hash().Sum(nil)), "abort-leaves-the-digest")
	vassert(srv.lastExecutedSeqNum[1] == marks[1] && srv.lastExecutedSeqNum[2] == marks[2], "abort-leaves-the-execution-state")
	for i, ch := range chans {
		if ch == nil {
			continue
		}
		vassert(len(ch) <= 1, "a-waiter-gets-at-most-one-outcome")
		if len(ch) == 1 {
			vcover("aborted")
			vassert(<-ch != nil, "abort-outcome-is-an-error")
		}
		_, still := srv.awaitingCmds[cmds[i].ID()]
		vassert(!still, "answered-waiter-is-removed")
	}
}
