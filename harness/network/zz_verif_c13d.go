package network

import (
	"github.com/relab/hotstuff"
	"github.com/relab/hotstuff/internal/proto/clientpb"
	"github.com/relab/hotstuff/internal/proto/hotstuffpb"
	"google.golang.org/protobuf/types/known/timestamppb"
)

// C13(d): the network layer's contract for fetched blocks: the quorum function returns a reply
// only if the block decoded from it hashes to the requested hash, and it does return one when
// some reply matches.
func VH_C13_requestblockqf(k int) {
	replies := map[uint32]*hotstuffpb.Block{}
	var hashes []hotstuff.Hash
	var pbs []*hotstuffpb.Block
	for i := 0; i < k; i++ {
		pb := &hotstuffpb.Block{
			Parent:    make([]byte, 32),
			QC:        &hotstuffpb.QuorumCert{Hash: make([]byte, 32), View: nondetU64("qcview")},
			View:      nondetU64("view"),
			Proposer:  nondetU32("proposer"),
			Commands:  &clientpb.Batch{},
			Timestamp: &timestamppb.Timestamp{Seconds: 1700000000 + int64(i)},
		}
		pb.Parent[0] = nondetU8("parent")
		replies[uint32(i+1)] = pb
		pbs = append(pbs, pb)
		hashes = append(hashes, hotstuffpb.BlockFromProto(pb).Hash())
	}
	// the requested hash: the hash of one of the replies, or something else
	// "something else" is the hash of a block that nobody replied with
	other := &hotstuffpb.Block{Parent: make([]byte, 32), QC: &hotstuffpb.QuorumCert{Hash: make([]byte, 32)}, View: nondetU64("view"),
		Commands: &clientpb.Batch{}, Timestamp: &timestamppb.Timestamp{Seconds: 1600000000}}
	want := hotstuffpb.BlockFromProto(other).Hash()
	sel := nondetInt("requested")
	vassume(sel >= 0 && sel <= k)
	for i := 0; i < k; i++ {
		if sel == i {
			want = hashes[i]
		}
	}
	got, ok := qspec{}.RequestBlockQF(&hotstuffpb.BlockHash{Hash: want[:]}, replies)
	matches := false
	for i := 0; i < k; i++ {
		if hashes[i] == want {
			matches = true
		}
	}
	vobserve("ok", vhB(ok))
	vassert(ok == matches, "fetch-succeeds-iff-some-reply-has-the-requested-hash")
	if ok {
		vcover("fetched")
		vassert(got != nil && hotstuffpb.BlockFromProto(got).Hash() == want, "fetched-block-has-the-requested-hash")
	} else {
		vassert(got == nil, "no-block-without-a-match")
	}
}

func vhB(b bool) uint64 {
	if b {
		return 1
	}
	return 0
}
