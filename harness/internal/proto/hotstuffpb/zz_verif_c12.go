package hotstuffpb

import (
	"time"
	"bytes"

	"github.com/relab/hotstuff"
	"github.com/relab/hotstuff/internal/proto/clientpb"
	"github.com/relab/hotstuff/security/crypto"
)

// vhMulti: an ECDSA or EdDSA multi-signature with k entries, symbolic signers and 2-byte sigs.
func vhMulti(k int, ed bool) hotstuff.QuorumSignature {
	if k < 0 {
		return nil
	}
	if ed {
		sigs := make([]*crypto.EDDSASignature, k)
		for i := range sigs {
			sigs[i] = crypto.RestoreEDDSASignature([]byte{nondetU8("sig"), nondetU8("sig")}, hotstuff.ID(nondetU32("signer")))
		}
		return crypto.NewMulti(sigs...)
	}
	sigs := make([]*crypto.ECDSASignature, k)
	for i := range sigs {
		sigs[i] = crypto.RestoreECDSASignature([]byte{nondetU8("sig"), nondetU8("sig")}, hotstuff.ID(nondetU32("signer")))
	}
	return crypto.NewMulti(sigs...)
}

func vhHash(name string) hotstuff.Hash {
	var h hotstuff.Hash
	h[0], h[15], h[31] = nondetU8(name), nondetU8(name), nondetU8(name)
	return h
}

func vhSameSig(a, b hotstuff.QuorumSignature, label string) {
	if a == nil || b == nil {
		vassert(a == nil && b == nil, label+"-presence")
		return
	}
	vassert(bytes.Equal(a.ToBytes(), b.ToBytes()), label+"-bytes")
	vassert(a.Participants().Len() == b.Participants().Len(), label+"-participants-count")
	var pa, pb []hotstuff.ID
	a.Participants().ForEach(func(i hotstuff.ID) { pa = append(pa, i) })
	b.Participants().ForEach(func(i hotstuff.ID) { pb = append(pb, i) })
	for i := range pa {
		if i < len(pb) {
			vassert(pa[i] == pb[i], label+"-participants-in-order")
		}
	}
}

func vhSameQC(a, b hotstuff.QuorumCert, label string) {
	vassert(a.View() == b.View(), label+"-view")
	vassert(a.BlockHash() == b.BlockHash(), label+"-hash")
	vhSameSig(a.Signature(), b.Signature(), label+"-sig")
	vassert(bytes.Equal(a.ToBytes(), b.ToBytes()), label+"-bytes-to-sign")
	vassert(a.Equals(b), label+"-equals")
}

// C12(a): certificates. k signature entries (k = -1: no signature object), scheme ed.
func VH_C12_certs(k int, ed int) {
	sig := vhMulti(k, ed == 1)
	// quorum signature
	if sig != nil {
		vhSameSig(sig, QuorumSignatureFromProto(QuorumSignatureToProto(sig)), "signature")
	}
	// quorum certificate
	qc := hotstuff.NewQuorumCert(sig, hotstuff.View(nondetU64("view")), vhHash("hash"))
	qc2 := QuorumCertFromProto(QuorumCertToProto(qc))
	if k != 0 { // an empty multi-signature decodes as an absent one (no oneof case is written)
		vhSameQC(qc, qc2, "qc")
	} else {
		vassert(qc2.View() == qc.View() && qc2.BlockHash() == qc.BlockHash(), "qc-view-and-hash")
	}
	vcover("qc")
	if k >= 1 {
		// partial certificate
		pc := hotstuff.NewPartialCert(sig, vhHash("hash"))
		pc2 := PartialCertFromProto(PartialCertToProto(pc))
		vassert(pc.BlockHash() == pc2.BlockHash(), "vote-hash")
		vassert(pc.Signer() == pc2.Signer(), "vote-signer")
		vhSameSig(pc.Signature(), pc2.Signature(), "vote-sig")
		vassert(bytes.Equal(pc.ToBytes(), pc2.ToBytes()), "vote-bytes")
		// timeout certificate
		tc := hotstuff.NewTimeoutCert(sig, hotstuff.View(nondetU64("view")))
		tc2 := TimeoutCertFromProto(TimeoutCertToProto(tc))
		vassert(tc.View() == tc2.View(), "tc-view")
		vhSameSig(tc.Signature(), tc2.Signature(), "tc-sig")
		vassert(bytes.Equal(tc.ToBytes(), tc2.ToBytes()), "tc-bytes")
	}
}

// C12(b): aggregate QC, sync info and timeout message. m map entries; parts present by mask
// (1 QC, 2 TC, 4 AggQC, 8 message signature).
func VH_C12_syncinfo(m int, mask int, ed int) {
	mkQC := func() hotstuff.QuorumCert {
		return hotstuff.NewQuorumCert(vhMulti(1, ed == 1), hotstuff.View(nondetU64("view")), vhHash("hash"))
	}
	qcs := make(map[hotstuff.ID]hotstuff.QuorumCert)
	ids := make([]hotstuff.ID, m)
	for i := 0; i < m; i++ {
		ids[i] = hotstuff.ID(nondetU32("id"))
		for j := 0; j < i; j++ {
			vassume(ids[j] != ids[i])
		}
		qcs[ids[i]] = mkQC()
	}
	agg := hotstuff.NewAggregateQC(qcs, vhMulti(2, ed == 1), hotstuff.View(nondetU64("view")))
	agg2 := AggregateQCFromProto(AggregateQCToProto(agg))
	vassert(agg.View() == agg2.View(), "aggqc-view")
	vhSameSig(agg.Sig(), agg2.Sig(), "aggqc-sig")
	vassert(len(agg2.QCs()) == m, "aggqc-map-size")
	for _, id := range ids {
		q2, ok := agg2.QCs()[id]
		vassert(ok, "aggqc-entry-present")
		if ok {
			vhSameQC(agg.QCs()[id], q2, "aggqc-entry")
		}
	}
	si := hotstuff.NewSyncInfo()
	if mask&1 != 0 {
		si.SetQC(mkQC())
	}
	if mask&2 != 0 {
		si.SetTC(hotstuff.NewTimeoutCert(vhMulti(2, ed == 1), hotstuff.View(nondetU64("view"))))
	}
	if mask&4 != 0 {
		si.SetAggQC(agg)
	}
	si2 := SyncInfoFromProto(SyncInfoToProto(si))
	q1, ok1 := si.QC()
	q2, ok2 := si2.QC()
	vassert(ok1 == ok2, "syncinfo-qc-presence")
	if ok1 && ok2 {
		vhSameQC(q1, q2, "syncinfo-qc")
	}
	t1, ok1 := si.TC()
	t2, ok2 := si2.TC()
	vassert(ok1 == ok2, "syncinfo-tc-presence")
	if ok1 && ok2 {
		vassert(t1.View() == t2.View() && bytes.Equal(t1.ToBytes(), t2.ToBytes()), "syncinfo-tc")
	}
	a1, ok1 := si.AggQC()
	a2, ok2 := si2.AggQC()
	vassert(ok1 == ok2, "syncinfo-aggqc-presence")
	if ok1 && ok2 {
		vassert(a1.View() == a2.View() && len(a1.QCs()) == len(a2.QCs()), "syncinfo-aggqc")
	}
	// timeout message (the sender id travels outside the message)
	tm := hotstuff.TimeoutMsg{ID: hotstuff.ID(nondetU32("sender")), View: hotstuff.View(nondetU64("view")), SyncInfo: si, ViewSignature: vhMulti(1, ed == 1)}
	if mask&8 != 0 {
		tm.MsgSignature = vhMulti(1, ed == 1)
	}
	tm2 := TimeoutMsgFromProto(TimeoutMsgToProto(tm))
	tm2.ID = tm.ID
	vassert(tm2.View == tm.View, "timeout-view")
	vhSameSig(tm.ViewSignature, tm2.ViewSignature, "timeout-view-sig")
	vhSameSig(tm.MsgSignature, tm2.MsgSignature, "timeout-msg-sig")
	vassert(bytes.Equal(tm.ToBytes(), tm2.ToBytes()), "timeout-bytes-to-sign")
	vcover("timeout")
}

// C12(c): blocks and proposals: the decoded block has the same hash (recomputed from its
// bytes), parent, view, proposer, certificate and timestamp.
func VH_C12_block(k int, cmds int, withAgg int, tsMode int) {
	batch := &clientpb.Batch{}
	for i := 0; i < cmds; i++ {
		batch.Commands = append(batch.Commands, &clientpb.Command{ClientID: nondetU32("client"), SequenceNumber: nondetU64("seq"), Data: []byte{nondetU8("data")}})
	}
	qc := hotstuff.NewQuorumCert(vhMulti(k, false), hotstuff.View(nondetU64("view")), vhHash("hash"))
	b := hotstuff.NewBlock(vhHash("parent"), qc, batch, hotstuff.View(nondetU64("view")), hotstuff.ID(nondetU32("proposer")))
	if tsMode == 1 {
		// an arbitrary timestamp: any second between the years ~1698 and ~2514 (before the epoch
		// and beyond the range of UnixNano included), any sub-second part
		sec, nsec := nondetI64("ts-sec"), nondetI64("ts-nsec")
		vassume(sec >= -(1<<33) && sec <= 1<<34 && nsec >= 0 && nsec < 1000000000)
		b.SetTimestamp(time.Unix(sec, nsec))
		if sec < 0 && nsec > 0 {
			vcover("pre-epoch-subsecond")
		}
	}
	p := hotstuff.ProposeMsg{ID: b.Proposer(), Block: b}
	if withAgg == 1 {
		agg := hotstuff.NewAggregateQC(map[hotstuff.ID]hotstuff.QuorumCert{hotstuff.ID(nondetU32("id")): qc}, vhMulti(1, false), hotstuff.View(nondetU64("view")))
		p.AggregateQC = &agg
	}
	p2 := ProposalFromProto(ProposalToProto(p))
	b2 := p2.Block
	vassert(b2.Parent() == b.Parent(), "block-parent")
	vassert(b2.View() == b.View(), "block-view")
	vassert(b2.Proposer() == b.Proposer(), "block-proposer")
	vassert(b2.Timestamp().UnixNano() == b.Timestamp().UnixNano(), "block-timestamp")
	vassert(b2.Timestamp().Unix() == b.Timestamp().Unix() && b2.Timestamp().Nanosecond() == b.Timestamp().Nanosecond(), "block-timestamp-seconds-and-nanoseconds")
	vhSameQC(b.QuorumCert(), b2.QuorumCert(), "block-qc")
	vassert(bytes.Equal(b2.ToBytes(), b.ToBytes()), "block-bytes")
	vassert(b2.Hash() == b.Hash(), "block-hash-recomputed-equal")
	vassert((p2.AggregateQC != nil) == (p.AggregateQC != nil), "proposal-aggqc-presence")
	if p2.AggregateQC != nil && p.AggregateQC != nil {
		vassert(p2.AggregateQC.View() == p.AggregateQC.View(), "proposal-aggqc-view")
	}
	vcover("block")
}

// C12(d): the hash names exactly one block. Two blocks that differ in exactly one part (field:
// 0 view, 1 proposer, 2 parent, 3 timestamp, 4 the QC's view, 5 a command's sequence number,
// 6 a command's client) - the other value symbolic and different - have different bytes under
// the hash; with a collision-free hash they have different hashes, so a block fetched by hash is
// the block that hash names. Full 64/32-bit ranges.
func VH_C12_binding(field int) {
	mk := func(view hotstuff.View, prop hotstuff.ID, parent hotstuff.Hash, ts int64, qcv hotstuff.View, seq uint64, client uint32) *hotstuff.Block {
		batch := &clientpb.Batch{Commands: []*clientpb.Command{{ClientID: client, SequenceNumber: seq, Data: []byte{7}}}}
		qc := hotstuff.NewQuorumCert(vhMulti(1, false), qcv, parent)
		b := hotstuff.NewBlock(parent, qc, batch, view, prop)
		b.SetTimestamp(time.Unix(ts, 0))
		return b
	}
	view, view2 := hotstuff.View(nondetU64("view")), hotstuff.View(nondetU64("view"))
	prop, prop2 := hotstuff.ID(nondetU32("proposer")), hotstuff.ID(nondetU32("proposer"))
	ts, ts2 := nondetI64("ts-sec"), nondetI64("ts-sec")
	vassume(ts >= 0 && ts < 1<<33 && ts2 >= 0 && ts2 < 1<<33)
	qcv, qcv2 := hotstuff.View(nondetU64("qc-view")), hotstuff.View(nondetU64("qc-view"))
	seq, seq2 := nondetU64("seq"), nondetU64("seq")
	cl, cl2 := nondetU32("client"), nondetU32("client")
	parent, parent2 := vhHash("parent"), vhHash("parent")
	switch field {
	case 0:
		vassume(view != view2)
		prop2, ts2, qcv2, seq2, cl2, parent2 = prop, ts, qcv, seq, cl, parent
	case 1:
		vassume(prop != prop2)
		view2, ts2, qcv2, seq2, cl2, parent2 = view, ts, qcv, seq, cl, parent
	case 2:
		vassume(parent != parent2)
		view2, prop2, ts2, qcv2, seq2, cl2 = view, prop, ts, qcv, seq, cl
	case 3:
		vassume(ts != ts2)
		view2, prop2, qcv2, seq2, cl2, parent2 = view, prop, qcv, seq, cl, parent
	case 4:
		vassume(qcv != qcv2)
		view2, prop2, ts2, seq2, cl2, parent2 = view, prop, ts, seq, cl, parent
	case 5:
		vassume(seq != seq2)
		view2, prop2, ts2, qcv2, cl2, parent2 = view, prop, ts, qcv, cl, parent
	default:
		vassume(cl != cl2)
		view2, prop2, ts2, qcv2, seq2, parent2 = view, prop, ts, qcv, seq, parent
	}
	a := mk(view, prop, parent, ts, qcv, seq, cl)
	b := mk(view2, prop2, parent2, ts2, qcv2, seq2, cl2)
	vassert(!bytes.Equal(a.ToBytes(), b.ToBytes()), "blocks-differing-in-one-part-have-different-bytes-under-the-hash")
	vcover("binding")
	vobserve("field", uint64(field))
}
