package clientpb

import "context"

type vhCmd struct {
	client uint32
	seq    uint64
}

// vhState builds an arbitrary command cache: k cached commands of clients {1,2} with symbolic
// sequence numbers, symbolic proposed-marks for both clients, batch size bs.
func vhState(k int, bs int) (*CommandCache, []*Command, []uint64) {
	c := NewCommandCache(uint32(bs))
	marks := []uint64{0, nondetU64("mark"), nondetU64("mark")}
	c.clientSeqNumbers[1] = marks[1]
	c.clientSeqNumbers[2] = marks[2]
	var cmds []*Command
	for i := 0; i < k; i++ {
		cl := uint32(1)
		if nondetBool("client2") {
			cl = 2
		}
		cmd := &Command{ClientID: cl, SequenceNumber: nondetU64("seq"), Data: []byte{byte(i)}}
		cmds = append(cmds, cmd)
		c.cache = append(c.cache, cmd)
	}
	return c, cmds, marks
}

func vhFresh(cmd *Command, marks []uint64) bool { return cmd.SequenceNumber > marks[cmd.ClientID] }

func vhFreshCount(cmds []*Command, marks []uint64) int {
	n := 0
	for _, c := range cmds {
		if vhFresh(c, marks) {
			n++
		}
	}
	return n
}

func vhHasToken(c *CommandCache) bool { return len(c.ready) > 0 }

// vhSameFresh: the fresh commands held by the cache (those above their client's mark), in cache
// order, are exactly want. Stale entries the implementation may or may not keep are not compared:
// the property speaks about fresh commands only.
func vhSameFresh(c *CommandCache, marks []uint64, want []*Command, label string) {
	j := 0
	for _, cmd := range c.cache {
		if !vhFresh(cmd, marks) {
			continue
		}
		vassert(j < len(want) && want[j] == cmd, label)
		j++
	}
	vassert(j == len(want), label)
}

func vhFreshOf(cmds []*Command, marks []uint64) []*Command {
	var out []*Command
	for _, cmd := range cmds {
		if vhFresh(cmd, marks) {
			out = append(out, cmd)
		}
	}
	return out
}


// C15: one operation (op 0 Add, 1 Proposed, 2 Get, 3 Get with cancelled context) from an
// arbitrary state satisfying the wake-up invariant "enough fresh commands => ready token".
func VH_C15_step(k int, bs int, op int) {
	c, cmds, marks := vhState(k, bs)
	token := nondetBool("token")
	vassume(vhFreshCount(cmds, marks) < bs || token) // invariant
	if token {
		c.ready <- struct{}{}
	}
	switch op {
	case 0:
		cl := uint32(1)
		if nondetBool("client2") {
			cl = 2
		}
		cmd := &Command{ClientID: cl, SequenceNumber: nondetU64("seq"), Data: []byte{0xAA}}
		c.Add(cmd)
		if vhFresh(cmd, marks) {
			vcover("add-accepted")
			cmds = append(cmds, cmd)
		} else {
			vcover("add-rejected")
		}
		// a fresh command joins the waiting fresh commands at the end; a stale one changes nothing
		vhSameFresh(c, marks, vhFreshOf(cmds, marks), "add-appends-a-fresh-command-last-and-keeps-the-others-in-order")
	case 1:
		b := &Batch{}
		for j := 0; j < 2; j++ {
			cl := uint32(1)
			if nondetBool("client2") {
				cl = 2
			}
			b.Commands = append(b.Commands, &Command{ClientID: cl, SequenceNumber: nondetU64("seq")})
		}
		c.Proposed(b)
		for _, pc := range b.Commands {
			if pc.SequenceNumber > marks[pc.ClientID] {
				marks[pc.ClientID] = pc.SequenceNumber
			}
		}
		vassert(c.clientSeqNumbers[1] == marks[1] && c.clientSeqNumbers[2] == marks[2], "marks-are-the-highest-proposed-sequence-numbers")
		vhSameFresh(c, marks, vhFreshOf(cmds, marks), "proposed-loses-no-command-that-is-still-fresh")
	case 2:
		var batch *Batch
		var err error
		blocked := vblocked(func() { batch, err = c.Get(context.Background()) })
		fresh := vhFreshCount(cmds, marks)
		if fresh >= bs {
			vcover("get-returns")
			vassert(!blocked && err == nil && batch != nil, "get-returns-when-enough-fresh-commands")
			if !blocked && batch != nil {
				vassert(len(batch.Commands) == bs, "batch-is-full-sized")
				// the batch is the first bs fresh commands in arrival order
				j := 0
				last := -1
				for i, cmd := range cmds {
					if j < bs && vhFresh(cmd, marks) {
						vassert(batch.Commands[j] == cmd, "batch-is-oldest-fresh-commands-in-order")
						j++
						last = i
					}
				}
				// what was handed out is gone, every other fresh command still waits, in order
				vhSameFresh(c, marks, vhFreshOf(cmds[last+1:], marks), "handed-out-commands-leave-later-fresh-commands-stay-in-order")
				for _, cmd := range batch.Commands {
					vassert(vhFresh(cmd, marks), "nothing-at-or-below-a-mark-is-handed-out")
				}
				cmds = cmds[last+1:]
			}
		} else {
			vcover("get-blocks")
			vassert(blocked, "get-blocks-without-a-full-fresh-batch")
			vhSameFresh(c, marks, vhFreshOf(cmds, marks), "blocked-get-loses-no-fresh-command")
		}
	default:
		// Get with an already cancelled context, with or without a pending ready token. With a
		// token both select cases are ready: the engine takes the first ready case in source order
		// (the token); the other choice returns at once without reading the token, which is the
		// token-less path of this same operation. Either way the call must not block, must lose
		// nothing, and must leave the wake-up invariant intact for the next Get.
		ctx, cancel := context.WithCancel(context.Background())
		cancel()
		var batch *Batch
		var err error
		blocked := vblocked(func() { batch, err = c.Get(ctx) })
		vassert(!blocked, "cancelled-get-does-not-block")
		if err != nil || batch == nil {
			vassert(err != nil && batch == nil, "cancelled-get-returns-the-context-error")
			vhSameFresh(c, marks, vhFreshOf(cmds, marks), "cancelled-get-loses-no-fresh-command")
		} else {
			vassert(token && vhFreshCount(cmds, marks) >= bs, "cancelled-get-hands-out-a-batch-only-when-one-is-ready")
			vassert(len(batch.Commands) == bs, "batch-is-full-sized")
			j := 0
			last := -1
			for i, cmd := range cmds {
				if j < bs && vhFresh(cmd, marks) {
					if j < len(batch.Commands) {
						vassert(batch.Commands[j] == cmd, "batch-is-oldest-fresh-commands-in-order")
					}
					j++
					last = i
				}
			}
			vhSameFresh(c, marks, vhFreshOf(cmds[last+1:], marks), "handed-out-commands-leave-later-fresh-commands-stay-in-order")
			cmds = cmds[last+1:]
		}
	}
	// the wake-up invariant is preserved (also by a Get that gave up)
	vassert(vhFreshCount(cmds, marks) < bs || vhHasToken(c), "wake-up-invariant-preserved")
	if op != 3 {
		// not observed for the cancelled Get: natively its select picks at random between the
		// token and ctx.Done, so the cache length afterwards is not a function of the inputs
		// (translator validation compares observations of native runs)
		vobserve("cache", uint64(len(c.cache)))
	}
}
