package tree

func vhDepthT(p, bf int) int {
	d := 0
	for p > 0 {
		p = (p - 1) / bf
		d++
	}
	return d
}

func VH_T01(n int, bf int) {
	x := nondetInt("x")
	vassume(x >= 0 && x < n)
	y := vhPosition(x, n)
	d := vhDepthT(y, bf)
	// reference by explicit case split on x
	for i := 0; i < n; i++ {
		if x == i {
			vassert(d == vhDepthT(i, bf), "depth-matches-concrete")
		}
	}
	vobserve("d", uint64(d))
}
