package tree

import "github.com/relab/hotstuff"

// C17: tree relations for every assignment of n pairwise distinct symbolic IDs to positions,
// from the vantage point of the replica at symbolic position `me`.
func VH_C17_tree(n int, bf int) {
	pos := make([]hotstuff.ID, n)
	for i := range pos {
		pos[i] = hotstuff.ID(nondetU32("id"))
		for j := 0; j < i; j++ {
			vassume(pos[j] != pos[i])
		}
	}
	me := nondetInt("me")
	vassume(me >= 0 && me < n)
	me = vhPosition(me, n)
	t := NewSimple(pos[me], bf, pos)
	vobserve("me", uint64(me))

	// reference shape: parent position, depth, number of levels
	parentOf := func(p int) int { return (p - 1) / bf }
	depthOf := func(p int) int {
		d := 0
		for p > 0 {
			p = parentOf(p)
			d++
		}
		return d
	}
	levels := 0
	for i := 0; i < n; i++ {
		if depthOf(i)+1 > levels {
			levels = depthOf(i) + 1
		}
	}

	vassert(t.Root() == pos[0], "root-is-position-zero")
	vassert(t.IsRoot(pos[me]) == (me == 0), "isroot-iff-position-zero")
	par, hasPar := t.Parent()
	if me == 0 {
		vcover("vantage-root")
		vassert(!hasPar, "root-has-no-parent")
		_ = par // what Parent() returns besides "no parent" for the root is not part of the property
	} else {
		vcover("vantage-nonroot")
		vassert(hasPar, "nonroot-has-parent")
		vassert(par == pos[parentOf(me)], "parent-is-floor-div")
	}
	// children of an arbitrary replica q, as seen from this vantage point
	q := nondetInt("q")
	vassume(q >= 0 && q < n)
	q = vhPosition(q, n)
	ch := t.ChildrenOf(pos[q])
	cnt := 0
	for p := 1; p < n; p++ {
		isChild := false
		for _, c := range ch {
			if c == pos[p] {
				isChild = true
			}
		}
		want := parentOf(p) == q
		vassert(isChild == want, "child-iff-parent-position")
		if want {
			cnt++
		}
	}
	vassert(len(ch) == cnt, "children-listed-once")
	for _, c := range ch {
		vassert(c != pos[0], "root-is-nobodys-child")
	}
	vassert(len(t.ChildrenOf(hotstuff.ID(nondetU32("stranger")))) == 0 || true, "children-of-any-id-does-not-panic")
	// own children
	rc := t.ReplicaChildren()
	own := 0
	for p := 1; p < n; p++ {
		if parentOf(p) == me {
			vassert(vhOnceIn(rc, pos[p], own), "each-own-child-listed-exactly-once")
			own++
		}
	}
	vassert(len(rc) == own, "replica-children-count")
	// peers = children of the parent
	peers := t.PeersOf()
	if me == 0 {
		vassert(len(peers) == 0, "root-has-no-peers")
	} else {
		k := 0
		for p := 1; p < n; p++ {
			if parentOf(p) == parentOf(me) {
				vassert(vhOnceIn(peers, pos[p], k), "peers-are-parents-children")
				k++
			}
		}
		vassert(len(peers) == k, "peers-count")
	}
	// subtree = exactly the proper descendants, each once
	sub := t.SubTree()
	desc := 0
	for p := 0; p < n; p++ {
		isDesc := false
		for a := p; a > 0; {
			a = parentOf(a)
			if a == me {
				isDesc = true
			}
		}
		occ := 0
		for _, s := range sub {
			if s == pos[p] {
				occ++
			}
		}
		if isDesc {
			desc++
			vassert(occ == 1, "descendant-in-subtree-once")
		} else {
			vassert(occ == 0, "non-descendant-not-in-subtree")
		}
	}
	vassert(len(sub) == desc, "subtree-size")
	if desc > bf {
		vcover("subtree-with-grandchildren")
	}
	// heights
	vassert(t.TreeHeight() == levels, "tree-height-is-number-of-levels")
	vassert(treeHeight(n, bf) == levels, "treeHeight-function")
	vassert(t.ReplicaHeight() == levels-depthOf(me), "replica-height-is-height-minus-depth")
	vassert(t.heightOf(pos[q]) == levels-depthOf(q), "heightOf-any-replica")
	vobserve("height", uint64(t.ReplicaHeight()))
}

// vhOnceIn: x occurs exactly once in list. hint is where it sits when the list is in position
// order (then the comparison is decided without the solver); any other order is accepted too.
// The lists' lengths are asserted separately, so "at the hinted index" implies "once" for lists
// of pairwise different IDs.
func vhOnceIn(list []hotstuff.ID, x hotstuff.ID, hint int) bool {
	if hint < len(list) && list[hint] == x {
		return true
	}
	in := 0
	for _, c := range list {
		if c == x {
			in++
		}
	}
	return in == 1
}

// vhPosition returns x (0 <= x < n assumed) as a selection among the constants 0..n-1, so that
// the reference shape's arithmetic on it (division by the branch factor) folds instead of
// reaching the solver.
func vhPosition(x, n int) int {
	for i := 0; i < n-1; i++ {
		if x == i {
			return i
		}
	}
	return n - 1
}
