package hotstuff

// C20: NumFaulty / QuorumSize inequalities for every n in [1, 2^bits].
func VH_C20_quorum(bits int) {
	n := nondetInt("n")
	vassume(n >= 1 && n <= 1<<uint(bits))
	f := NumFaulty(n)
	q := QuorumSize(n)
	vobserve("f", uint64(f))
	vobserve("q", uint64(q))
	vcover("reached")
	vassert(f >= 0, "f-nonnegative")
	vassert(3*f < n, "three-f-below-n")
	vassert(n <= 3*f+3, "f-is-largest")
	vassert(2*q-n >= f+1, "quorum-intersection")
	vassert(q <= n-f, "quorum-availability")
	vassert(2*(q-1)-n < f+1, "quorum-minimal")
	vassert(q >= 1 && q <= n, "quorum-in-range")
}
