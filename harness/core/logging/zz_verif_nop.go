package logging

// VNopLogger is a Logger that discards everything (harness support).
type VNopLogger struct{}

func (VNopLogger) DPanic(args ...any)                   {}
func (VNopLogger) DPanicf(template string, args ...any) {}
func (VNopLogger) Debug(args ...any)                    {}
func (VNopLogger) Debugf(template string, args ...any)  {}
func (VNopLogger) Error(args ...any)                    {}
func (VNopLogger) Errorf(template string, args ...any)  {}
func (VNopLogger) Fatal(args ...any)                    {}
func (VNopLogger) Fatalf(template string, args ...any)  {}
func (VNopLogger) Info(args ...any)                     {}
func (VNopLogger) Infof(template string, args ...any)   {}
func (VNopLogger) Panic(args ...any)                    {}
func (VNopLogger) Panicf(template string, args ...any)  {}
func (VNopLogger) Warn(args ...any)                     {}
func (VNopLogger) Warnf(template string, args ...any)   {}

// VNop returns the discarding logger.
func VNop() Logger { return VNopLogger{} }
