package eventloop

// C14(a): one ring-buffer operation from an arbitrary valid state (inductive step).
func VH_C14_queue_step(c int) {
	q0 := newQueue(uint(c))
	q := &q0
	vassert(q.head == -1 && q.tail == -1, "init-establishes-invariant")
	vassert(q.len() == 0, "init-empty")
	h, t := nondetInt("head"), nondetInt("tail")
	vassume((h == -1 && t == -1) || (0 <= h && h < c && 0 <= t && t < c))
	q.head, q.tail = h, t
	tok := make([]int, c)
	for i := range tok {
		tok[i] = nondetInt("tok")
		q.entries[i] = tok[i]
	}
	n := 0 // ghost: abstract length
	if h != -1 {
		n = (t-h+c)%c + 1
	}
	at := func(i int) int { return tok[(h+i)%c] } // ghost: abstract sequence element i
	vassert(q.len() == n, "len-equals-abstract-length")
	vobserve("n", uint64(n))
	if nondetBool("op-is-push") {
		x := nondetInt("x")
		d := q.push(x)
		if n == c {
			vcover("overflowing-push")
			vassert(d != nil, "overflow-reports-a-drop")
			if d != nil {
				vassert(d.(int) == at(0), "dropped-is-oldest")
			}
		} else {
			vcover("push-below-capacity")
			vassert(d == nil, "no-drop-below-capacity")
		}
		vassert(0 <= q.head && q.head < c && 0 <= q.tail && q.tail < c, "push-preserves-invariant")
		n2, off := n+1, 0
		if n == c {
			n2, off = c, 1
		}
		vassert(q.len() == n2, "push-length")
		for i := 0; i < n2-1; i++ {
			vassert(q.entries[(q.head+i)%c].(int) == at(i+off), "push-keeps-order")
		}
		vassert(q.entries[q.tail].(int) == x, "push-appends-last")
		vassert((q.head+n2-1)%c == q.tail, "push-tail-position")
		vobserve("len-after", uint64(q.len()))
	} else {
		e, ok := q.pop()
		if n == 0 {
			vcover("pop-empty")
			vassert(e == nil && !ok, "pop-empty-reports-nothing")
			vassert(q.head == -1 && q.tail == -1, "pop-empty-keeps-state")
		} else {
			vcover("pop-nonempty")
			vassert(ok, "pop-nonempty-ok")
			vassert(e != nil && e.(int) == at(0), "pop-returns-oldest")
			vassert(q.len() == n-1, "pop-length")
			vassert((q.head == -1 && q.tail == -1) || (0 <= q.head && q.head < c && 0 <= q.tail && q.tail < c), "pop-preserves-invariant")
			for i := 0; i < n-1; i++ {
				vassert(q.entries[(q.head+i)%c].(int) == at(i+1), "pop-keeps-order")
			}
		}
		vobserve("len-after", uint64(q.len()))
	}
}
