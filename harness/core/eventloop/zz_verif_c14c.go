package eventloop

import (
	"context"

	"github.com/relab/hotstuff/core/logging"
)

// LIFO model of the handler-list pool (redirect target for pool.Get / pool.Put in the `nested`
// harness): a list that was Put is the next one handed out. sync.Pool may behave like this or
// return a fresh list; the other harnesses run with the "always fresh" model, this one with reuse,
// so a list returned to the pool while it is still being iterated is seen by a nested dispatch.
var vhPoolStack [][]EventHandler[any]

func vhPoolGet(p *pool[[]EventHandler[any]]) []EventHandler[any] {
	if n := len(vhPoolStack); n > 0 {
		v := vhPoolStack[n-1]
		vhPoolStack = vhPoolStack[:n-1]
		return v
	}
	return make([]EventHandler[any], 0, 10)
}

func vhPoolPut(p *pool[[]EventHandler[any]], val []EventHandler[any]) {
	vhPoolStack = append(vhPoolStack, val)
}

// C14(b'): nested dispatch. nh handlers for type A with symbolic priority flags; a symbolically
// chosen one of them adds an event of type B from inside its callback. B has two handlers that
// run inside AddEvent (symbolic priority) and one ordinary handler. The nested dispatch of B must
// not disturb the dispatch of A that is in progress (every A handler exactly once, prioritised
// first), B's run-in-AddEvent handlers run exactly once inside the A handler that added B, and
// B's ordinary handler runs exactly once at the following Tick, after all handlers of A.
func VH_C14_nested(nh int) {
	vhPoolStack = nil
	el := New(logging.VNop(), 10)
	var log []int // 0..nh-1: A handlers; 100,101: B in-AddEvent handlers; 200: B ordinary
	prio := make([]bool, nh)
	adder := nondetInt("adder")
	vassume(adder >= 0 && adder < nh)
	for i := 0; i < nh; i++ {
		i := i
		prio[i] = nondetBool("priority")
		var opts []HandlerOption
		if prio[i] {
			opts = append(opts, Prioritize())
		}
		Register(el, func(e vhEvA) {
			log = append(log, i)
			if i == adder {
				el.AddEvent(vhEvB{7})
			}
		}, opts...)
	}
	bp0, bp1 := nondetBool("b-priority"), nondetBool("b-priority")
	o0 := []HandlerOption{UnsafeRunInAddEvent()}
	if bp0 {
		o0 = append(o0, Prioritize())
	}
	o1 := []HandlerOption{UnsafeRunInAddEvent()}
	if bp1 {
		o1 = append(o1, Prioritize())
	}
	Register(el, func(e vhEvB) { log = append(log, 100) }, o0...)
	Register(el, func(e vhEvB) { log = append(log, 101) }, o1...)
	Register(el, func(e vhEvB) { log = append(log, 200) })

	el.AddEvent(vhEvA{1})
	vassert(len(log) == 0, "ordinary-handlers-do-not-run-inside-addevent")
	vassert(el.Tick(context.Background()), "queued-event-is-processed")
	// the dispatch of A, with the nested dispatch of B's in-AddEvent handlers
	vassert(len(log) == nh+2, "nested-dispatch-every-handler-exactly-once")
	seenOrdinary := false
	posAdder, pos100, pos101 := -1, -1, -1
	for k, h := range log {
		if h == 100 {
			vassert(pos100 < 0, "nested-inaddevent-handler-once")
			pos100 = k
			continue
		}
		if h == 101 {
			vassert(pos101 < 0, "nested-inaddevent-handler-once")
			pos101 = k
			continue
		}
		vassert(h >= 0 && h < nh, "nested-only-registered-handlers")
		if h < 0 || h >= nh {
			continue
		}
		if h == adder {
			posAdder = k
		}
		if prio[h] {
			vassert(!seenOrdinary, "nested-prioritised-handlers-run-before-ordinary-ones")
		} else {
			seenOrdinary = true
		}
	}
	for i := 0; i < nh; i++ {
		c := 0
		for _, x := range log {
			if x == i {
				c++
			}
		}
		vassert(c == 1, "nested-outer-handler-exactly-once")
	}
	vassert(posAdder >= 0 && pos100 >= 0 && pos101 >= 0, "nested-all-ran")
	if posAdder >= 0 && pos100 >= 0 && pos101 >= 0 {
		lo, hi := pos100, pos101
		if lo > hi {
			lo, hi = hi, lo
		}
		vassert(lo == posAdder+1 && hi == posAdder+2, "nested-inaddevent-handlers-run-inside-the-adding-handler")
		if bp1 && !bp0 {
			vassert(pos101 < pos100, "nested-prioritised-inaddevent-handler-first")
		}
		if bp0 && !bp1 {
			vassert(pos100 < pos101, "nested-prioritised-inaddevent-handler-first")
		}
	}
	n1 := len(log)
	vassert(el.Tick(context.Background()), "nested-event-was-queued")
	vassert(len(log) == n1+1 && log[len(log)-1] == 200, "nested-event-handled-once-by-its-ordinary-handler-after-the-outer-event")
	vassert(!el.Tick(context.Background()), "nothing-left")
	vcover("nested")
}
