package eventloop

import (
	"context"

	"github.com/relab/hotstuff/core/logging"
)

type vhEvA struct{ n int }
type vhEvB struct{ n int }

// C14(b): dispatch order. nh handlers for event type A with symbolic priority / run-in-AddEvent
// flags, one of them optionally unregistered before the event is added; one event is added and
// the loop is ticked until idle.
func VH_C14_dispatch(nh int) {
	el := New(logging.VNop(), 10)
	var log []int
	prio := make([]bool, nh)
	inAdd := make([]bool, nh)
	unreg := make([]func(), nh)
	for i := 0; i < nh; i++ {
		i := i
		prio[i], inAdd[i] = nondetBool("priority"), nondetBool("run-in-addevent")
		var opts []HandlerOption
		if prio[i] {
			opts = append(opts, Prioritize())
		}
		if inAdd[i] {
			opts = append(opts, UnsafeRunInAddEvent())
		}
		unreg[i] = Register(el, func(e vhEvA) { log = append(log, i) }, opts...)
	}
	dead := nondetInt("unregistered") // nh: nobody
	vassume(dead >= 0 && dead <= nh)
	for i := 0; i < nh; i++ {
		if i == dead {
			unreg[i]()
		}
	}
	// optionally a new handler is registered afterwards (it may reuse the freed slot); its own
	// options decide when it runs
	rereg := nondetBool("register-another")
	if rereg {
		p2, a2 := nondetBool("priority"), nondetBool("run-in-addevent")
		var opts []HandlerOption
		if p2 {
			opts = append(opts, Prioritize())
		}
		if a2 {
			opts = append(opts, UnsafeRunInAddEvent())
		}
		Register(el, func(e vhEvA) { log = append(log, nh) }, opts...)
		prio = append(prio, p2)
		inAdd = append(inAdd, a2)
		vcover("re-registered")
	}
	total := len(prio)
	live := func(i int) bool { return !(i == dead && dead < nh) }
	// within a phase: exactly the live handlers of that phase, prioritised ones first; among the
	// originally registered handlers registration order within a class
	check := func(got []int, phaseInAdd bool, label string) {
		want := 0
		for i := 0; i < total; i++ {
			if live(i) && inAdd[i] == phaseInAdd {
				want++
			}
		}
		vassert(len(got) == want, label+"-runs-exactly-the-handlers-of-its-phase")
		seenOrdinary := false
		lastP, lastO := -1, -1
		for _, h := range got {
			vassert(h >= 0 && h < total && live(h) && inAdd[h] == phaseInAdd, label+"-only-live-handlers-of-this-phase")
			if h < 0 || h >= total {
				continue
			}
			if prio[h] {
				vassert(!seenOrdinary, label+"-prioritised-handlers-run-before-ordinary-ones")
				if h < nh {
					vassert(h > lastP || lastP >= nh, label+"-registration-order-within-prioritised")
					lastP = h
				}
			} else {
				seenOrdinary = true
				if h < nh {
					vassert(h > lastO || lastO >= nh, label+"-registration-order-within-ordinary")
					lastO = h
				}
			}
		}
	}
	el.AddEvent(vhEvA{1})
	n1 := len(log)
	check(log[:n1], true, "addevent")
	vassert(el.Tick(context.Background()), "queued-event-is-processed")
	check(log[n1:], false, "tick")
	vassert(!el.Tick(context.Background()), "event-handled-once")
	for i := 0; i < total; i++ {
		c := 0
		for _, x := range log {
			if x == i {
				c++
			}
		}
		if !live(i) {
			vassert(c == 0, "unregistered-handler-not-called")
		} else {
			vassert(c == 1, "each-live-handler-called-exactly-once")
		}
	}
	if n1 > 0 && len(log) > n1 {
		vcover("both-phases")
	}
	vobserve("calls", uint64(len(log)))
}

// C14(c): deferred events: d events of type A are deferred until a B event; they are delivered
// exactly once each, after B was handled, in deferral order; a second B delivers nothing more.
func VH_C14_deferred(d int) {
	el := New(logging.VNop(), 10)
	var log []int // -1: B handled; k >= 0: deferred A event k handled
	Register(el, func(e vhEvA) { log = append(log, e.n) })
	Register(el, func(e vhEvB) { log = append(log, -1) })
	for k := 0; k < d; k++ {
		DelayUntil[vhEvB](el, vhEvA{k})
	}
	DelayUntil[vhEvB](el, nil) // ignored
	vassert(!el.Tick(context.Background()), "deferred-events-are-not-queued-yet")
	// an unrelated A event does not release them
	el.AddEvent(vhEvA{100})
	for el.Tick(context.Background()) {
	}
	vassert(len(log) == 1 && log[0] == 100, "other-event-types-do-not-release-deferred-events")
	el.AddEvent(vhEvB{0})
	for el.Tick(context.Background()) {
	}
	vassert(len(log) == 2+d, "each-deferred-event-delivered")
	if len(log) == 2+d {
		vassert(log[1] == -1, "awaited-event-handled-first")
		for k := 0; k < d; k++ {
			vassert(log[2+k] == k, "deferred-events-delivered-in-deferral-order")
		}
	}
	el.AddEvent(vhEvB{1})
	for el.Tick(context.Background()) {
	}
	vassert(len(log) == 3+d, "deferred-events-delivered-exactly-once")
	vcover("deferred")
	vobserve("log", uint64(len(log)))
}
