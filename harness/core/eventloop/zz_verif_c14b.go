package eventloop

import (
	"context"

	"github.com/relab/hotstuff/core/logging"
)

type vhEvA struct{ n int }
type vhEvB struct{ n int }

// C14(b): dispatch order. nh handlers for event type A with symbolic priority / run-in-AddEvent
// flags, one of them optionally unregistered before the event is added; one event is added and
// the loop is ticked until idle.
func VH_C14_dispatch(nh int) {
	el := New(logging.VNop(), 10)
	var log []int
	prio := make([]bool, nh)
	inAdd := make([]bool, nh)
	unreg := make([]func(), nh)
	for i := 0; i < nh; i++ {
		i := i
		prio[i], inAdd[i] = nondetBool("priority"), nondetBool("run-in-addevent")
		var opts []HandlerOption
		if prio[i] {
			opts = append(opts, Prioritize())
		}
		if inAdd[i] {
			opts = append(opts, UnsafeRunInAddEvent())
		}
		unreg[i] = Register(el, func(e vhEvA) { log = append(log, i) }, opts...)
	}
	dead := nondetInt("unregistered") // nh: nobody
	vassume(dead >= 0 && dead <= nh)
	for i := 0; i < nh; i++ {
		if i == dead {
			unreg[i]()
		}
	}
	// expected orders: within a phase, prioritised handlers first, registration order within a class
	expect := func(phaseInAdd bool) []int {
		var out []int
		for pass := 0; pass < 2; pass++ {
			for i := 0; i < nh; i++ {
				if i != dead && inAdd[i] == phaseInAdd && prio[i] == (pass == 0) {
					out = append(out, i)
				}
			}
		}
		return out
	}
	el.AddEvent(vhEvA{1})
	w1 := expect(true)
	vassert(len(log) == len(w1), "addevent-runs-exactly-the-run-in-addevent-handlers")
	for i := range w1 {
		if i < len(log) {
			vassert(log[i] == w1[i], "addevent-order-prioritised-first-then-registration-order")
		}
	}
	n1 := len(log)
	vassert(el.Tick(context.Background()), "queued-event-is-processed")
	w2 := expect(false)
	vassert(len(log)-n1 == len(w2), "tick-runs-exactly-the-ordinary-handlers")
	for i := range w2 {
		if n1+i < len(log) {
			vassert(log[n1+i] == w2[i], "tick-order-prioritised-first-then-registration-order")
		}
	}
	vassert(!el.Tick(context.Background()), "event-handled-once")
	for i := 0; i < nh; i++ {
		c := 0
		for _, x := range log {
			if x == i {
				c++
			}
		}
		if i == dead {
			vassert(c == 0, "unregistered-handler-not-called")
		} else {
			vassert(c == 1, "each-live-handler-called-exactly-once")
		}
	}
	vobserve("calls", uint64(len(log)))
	if len(w1) > 0 && len(w2) > 0 {
		vcover("both-phases")
	}
}

// C14(c): deferred events: d events of type A are deferred until a B event; they are delivered
// exactly once each, after B was handled, in deferral order; a second B delivers nothing more.
func VH_C14_deferred(d int) {
	el := New(logging.VNop(), 10)
	var log []int // -1: B handled; k >= 0: deferred A event k handled
	Register(el, func(e vhEvA) { log = append(log, e.n) })
	Register(el, func(e vhEvB) { log = append(log, -1) })
	for k := 0; k < d; k++ {
		DelayUntil[vhEvB](el, vhEvA{k})
	}
	DelayUntil[vhEvB](el, nil) // ignored
	vassert(!el.Tick(context.Background()), "deferred-events-are-not-queued-yet")
	// an unrelated A event does not release them
	el.AddEvent(vhEvA{100})
	for el.Tick(context.Background()) {
	}
	vassert(len(log) == 1 && log[0] == 100, "other-event-types-do-not-release-deferred-events")
	el.AddEvent(vhEvB{0})
	for el.Tick(context.Background()) {
	}
	vassert(len(log) == 2+d, "each-deferred-event-delivered")
	if len(log) == 2+d {
		vassert(log[1] == -1, "awaited-event-handled-first")
		for k := 0; k < d; k++ {
			vassert(log[2+k] == k, "deferred-events-delivered-in-deferral-order")
		}
	}
	el.AddEvent(vhEvB{1})
	for el.Tick(context.Background()) {
	}
	vassert(len(log) == 3+d, "deferred-events-delivered-exactly-once")
	vcover("deferred")
	vobserve("log", uint64(len(log)))
}
