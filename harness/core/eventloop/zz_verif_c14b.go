package eventloop

import (
	"context"

	"github.com/relab/hotstuff/core/logging"
)

type vhEvA struct{ n int }
type vhEvB struct{ n int }

// C14(b): dispatch order. nh handlers for event type A with symbolic priority / run-in-AddEvent
// flags, one of them optionally unregistered before the event is added; one event is added and
// the loop is ticked until idle.
func VH_C14_dispatch(nh int) {
	el := New(logging.VNop(), 10)
	var log []int
	prio := make([]bool, nh)
	inAdd := make([]bool, nh)
	unreg := make([]func(), nh)
	for i := 0; i < nh; i++ {
		i := i
		prio[i], inAdd[i] = nondetBool("priority"), nondetBool("run-in-addevent")
		var opts []HandlerOption
		if prio[i] {
			opts = append(opts, Prioritize())
		}
		if inAdd[i] {
			opts = append(opts, UnsafeRunInAddEvent())
		}
		unreg[i] = Register(el, func(e vhEvA) { log = append(log, i) }, opts...)
	}
	dead := nondetInt("unregistered") // nh: nobody
	vassume(dead >= 0 && dead <= nh)
	for i := 0; i < nh; i++ {
		if i == dead {
			unreg[i]()
		}
	}
	// optionally a new handler is registered afterwards (it may reuse the freed slot); its own
	// options decide when it runs
	rereg := nondetBool("register-another")
	if rereg {
		p2, a2 := nondetBool("priority"), nondetBool("run-in-addevent")
		var opts []HandlerOption
		if p2 {
			opts = append(opts, Prioritize())
		}
		if a2 {
			opts = append(opts, UnsafeRunInAddEvent())
		}
		Register(el, func(e vhEvA) { log = append(log, nh) }, opts...)
		prio = append(prio, p2)
		inAdd = append(inAdd, a2)
		vcover("re-registered")
	}
	total := len(prio)
	live := func(i int) bool { return !(i == dead && dead < nh) }
	// within one dispatch pass (handlers that run inside AddEvent, then handlers that run when the
	// queued event is processed): only live handlers, prioritised ones before ordinary ones. Which
	// pass a handler runs in and the order inside a class are not part of the property.
	check := func(got []int, label string) {
		seenOrdinary := false
		for _, h := range got {
			vassert(h >= 0 && h < total && live(h), label+"-only-live-handlers")
			if h < 0 || h >= total {
				continue
			}
			if prio[h] {
				vassert(!seenOrdinary, label+"-prioritised-handlers-run-before-ordinary-ones")
			} else {
				seenOrdinary = true
			}
		}
	}
	el.AddEvent(vhEvA{1})
	n1 := len(log)
	check(log[:n1], "addevent")
	vassert(el.Tick(context.Background()), "queued-event-is-processed")
	check(log[n1:], "tick")
	vassert(!el.Tick(context.Background()), "event-handled-once")
	for i := 0; i < total; i++ {
		c := 0
		for _, x := range log {
			if x == i {
				c++
			}
		}
		if !live(i) {
			vassert(c == 0, "unregistered-handler-not-called")
		} else {
			vassert(c == 1, "each-live-handler-called-exactly-once")
		}
	}
	if n1 > 0 && len(log) > n1 {
		vcover("both-phases")
	}
	vobserve("calls", uint64(len(log)))
}

// C14(c): deferred events: d events of type A are deferred until a B event; they are delivered
// exactly once each, after B was handled, in deferral order; a second B delivers nothing more.
func VH_C14_deferred(d int) {
	el := New(logging.VNop(), 10)
	var log []int // -1: B handled; k >= 0: deferred A event k handled
	Register(el, func(e vhEvA) { log = append(log, e.n) })
	Register(el, func(e vhEvB) { log = append(log, -1) })
	for k := 0; k < d; k++ {
		DelayUntil[vhEvB](el, vhEvA{k})
	}
	DelayUntil[vhEvB](el, nil) // ignored
	vassert(!el.Tick(context.Background()), "deferred-events-are-not-queued-yet")
	// an unrelated A event does not release them
	el.AddEvent(vhEvA{100})
	for el.Tick(context.Background()) {
	}
	vassert(len(log) == 1 && log[0] == 100, "other-event-types-do-not-release-deferred-events")
	el.AddEvent(vhEvB{0})
	for el.Tick(context.Background()) {
	}
	vassert(len(log) == 2+d, "each-deferred-event-delivered")
	if len(log) == 2+d {
		vassert(log[1] == -1, "awaited-event-handled-first")
		for k := 0; k < d; k++ {
			vassert(log[2+k] == k, "deferred-events-delivered-in-deferral-order")
		}
	}
	el.AddEvent(vhEvB{1})
	for el.Tick(context.Background()) {
	}
	vassert(len(log) == 3+d, "deferred-events-delivered-exactly-once")
	vcover("deferred")
	vobserve("log", uint64(len(log)))
}

type vhEvC struct{ n int }

// C14(c'): deferred events with two awaited types, and a handler that defers again while its own
// event is being dispatched. d events are deferred, each until B or until C (symbolic); then B
// and C events are fired in a symbolic order. Every deferred event is delivered exactly once,
// only after an event of its awaited type was handled, and in deferral order among those waiting
// for the same type.
func VH_C14_deferred2(d int) {
	el := New(logging.VNop(), 16)
	var log []int // -1: B handled; -2: C handled; k >= 0: A event k handled
	first := true
	Register(el, func(e vhEvA) { log = append(log, e.n) })
	Register(el, func(e vhEvB) {
		log = append(log, -1)
		if first {
			first = false
			DelayUntil[vhEvB](el, vhEvA{50}) // deferred while B is being dispatched
		}
	})
	Register(el, func(e vhEvC) { log = append(log, -2) })
	untilC := make([]bool, d)
	for k := 0; k < d; k++ {
		untilC[k] = nondetBool("await-c")
		if untilC[k] {
			DelayUntil[vhEvC](el, vhEvA{k})
		} else {
			DelayUntil[vhEvB](el, vhEvA{k})
		}
	}
	bFirst := nondetBool("b-first")
	fire := func(c bool) {
		if c {
			el.AddEvent(vhEvC{0})
		} else {
			el.AddEvent(vhEvB{0})
		}
		for el.Tick(context.Background()) {
		}
	}
	fire(bFirst == false)
	// after the first awaited event: exactly the events waiting for that type were delivered
	n1 := 0
	for k := 0; k < d; k++ {
		if untilC[k] == !bFirst {
			n1++
		}
	}
	extra := 0
	if bFirst {
		extra = 1 // the event deferred by B's own handler is released by the same B
	}
	vassert(len(log) == 1+n1+extra || len(log) == 1+n1, "first-awaited-type-releases-only-its-own-waiters")
	fire(bFirst)
	fire(false) // one more B: releases the re-deferred event at the latest, nothing twice
	fire(true)
	posOf := func(x int) (int, int) {
		c, p := 0, -1
		for i, v := range log {
			if v == x {
				c++
				if p < 0 {
					p = i
				}
			}
		}
		return c, p
	}
	_, pB := posOf(-1)
	_, pC := posOf(-2)
	lastB, lastC := -1, -1
	for k := 0; k < d; k++ {
		c, p := posOf(k)
		vassert(c == 1, "deferred-event-delivered-exactly-once")
		if c != 1 {
			continue
		}
		if untilC[k] {
			vassert(p > pC, "delivered-after-awaited-type-handled")
			vassert(p > lastC, "deferral-order-among-same-awaited-type")
			lastC = p
		} else {
			vassert(p > pB, "delivered-after-awaited-type-handled")
			vassert(p > lastB, "deferral-order-among-same-awaited-type")
			lastB = p
		}
	}
	c50, p50 := posOf(50)
	vassert(c50 == 1 && p50 > pB, "event-deferred-during-dispatch-delivered-once-after-awaited-type")
	vassert(len(log) == 2+3+d-1+1 || len(log) == 5+d, "nothing-else-delivered")
	if bFirst {
		vcover("b-first")
	} else {
		vcover("c-first")
	}
	vobserve("log", uint64(len(log)))
}

// C14(d): the loop on top of the ring buffer. m events are added to a loop of capacity c without
// ticking in between (a run-in-AddEvent observer sees every one), then the loop is ticked until
// idle: the queued handler sees exactly the last min(m,c) events, in order, each once.
func VH_C14_loop(c, m int) {
	el := New(logging.VNop(), uint(c))
	var seen, handled []int
	Register(el, func(e vhEvA) { seen = append(seen, e.n) }, UnsafeRunInAddEvent())
	Register(el, func(e vhEvA) { handled = append(handled, e.n) })
	pre := nondetInt("pre") // events added and consumed beforehand, to move head/tail
	vassume(pre >= 0 && pre <= c)
	for i := 0; i < c; i++ {
		if i < pre {
			el.AddEvent(vhEvA{1000 + i})
			vassert(el.Tick(context.Background()), "tick-handles-queued-event")
		}
	}
	handled, seen = nil, nil
	for i := 0; i < m; i++ {
		el.AddEvent(vhEvA{i})
	}
	vassert(len(seen) == m, "addevent-observers-see-every-event")
	for el.Tick(context.Background()) {
	}
	want := m
	if want > c {
		want = c
		vcover("overflow")
	}
	vassert(len(handled) == want, "queued-handler-sees-min-m-c-events")
	for i := range handled {
		vassert(handled[i] == m-want+i, "only-oldest-dropped-rest-in-order")
	}
	vobserve("handled", uint64(len(handled)))
}

// C14(c''): deferring while deferred events are being re-queued. d events wait for B. A handler
// that runs inside AddEvent reacts to the first of them (when it is re-queued after B) by
// deferring two follow-ups until the next B. Every event - the original d and the two follow-ups
// - is delivered exactly once, the originals after the first B in deferral order, the follow-ups
// only after the second B.
func VH_C14_deferred3(d int) {
	el := New(logging.VNop(), 32)
	var log []int // -1: B handled; k >= 0: A event k handled by the queued handler
	Register(el, func(e vhEvA) {
		if e.n == 0 {
			DelayUntil[vhEvB](el, vhEvA{60})
			DelayUntil[vhEvB](el, vhEvA{61})
		}
	}, UnsafeRunInAddEvent())
	Register(el, func(e vhEvA) { log = append(log, e.n) })
	Register(el, func(e vhEvB) { log = append(log, -1) })
	for k := 0; k < d; k++ {
		DelayUntil[vhEvB](el, vhEvA{k})
	}
	fireB := func() {
		el.AddEvent(vhEvB{0})
		for el.Tick(context.Background()) {
		}
	}
	fireB()
	vassert(len(log) == 1+d, "first-awaited-event-releases-exactly-the-waiting-events")
	if len(log) == 1+d {
		vassert(log[0] == -1, "awaited-event-handled-first")
		for k := 0; k < d; k++ {
			vassert(log[1+k] == k, "deferred-events-delivered-once-in-deferral-order")
		}
	}
	fireB()
	vassert(len(log) == 1+d+3, "events-deferred-during-the-re-queue-wait-for-the-next-awaited-event")
	if len(log) == 1+d+3 {
		vassert(log[1+d] == -1 && log[2+d] == 60 && log[3+d] == 61, "follow-ups-delivered-once-in-order-after-the-second-awaited-event")
	}
	fireB()
	vassert(len(log) == 1+d+3+1, "nothing-delivered-twice")
	vcover("deferred-during-requeue")
	vobserve("log", uint64(len(log)))
}
