package crypto

import "github.com/relab/hotstuff"

// C19(a): k insertions of symbolic IDs in 1..maxID, then queries, against an ideal set.
func VH_C19_bitfield_add(k int, maxID int) {
	var bf Bitfield
	ids := make([]hotstuff.ID, k)
	for i := range ids {
		id := nondetU32("id")
		vassume(id >= 1 && id <= uint32(maxID))
		ids[i] = hotstuff.ID(id)
		bf.Add(ids[i])
	}
	x := hotstuff.ID(nondetU32("x"))
	vassume(x >= 1 && x <= 1<<20)
	inserted := false
	for i := range ids {
		if ids[i] == x {
			inserted = true
		}
	}
	distinct := 0
	for i := range ids {
		first := true
		for j := 0; j < i; j++ {
			if ids[j] == ids[i] {
				first = false
			}
		}
		if first {
			distinct++
		}
	}
	vobserve("distinct", uint64(distinct))
	vassert(bf.Contains(x) == inserted, "contains-iff-inserted")
	vassert(bf.Len() == distinct, "len-counts-distinct")
	var seen []hotstuff.ID
	bf.RangeWhile(func(i hotstuff.ID) bool {
		seen = append(seen, i)
		return true
	})
	vassert(len(seen) == distinct, "iteration-visits-each-once")
	for i := range seen {
		if i > 0 {
			vassert(seen[i-1] < seen[i], "iteration-ascending")
		}
		isIn := false
		for j := range ids {
			if ids[j] == seen[i] {
				isIn = true
			}
		}
		vassert(isIn, "iteration-only-inserted")
		vobserve("seen", uint64(seen[i]))
	}
	n := 0
	bf.ForEach(func(hotstuff.ID) { n++ })
	vassert(n == distinct, "foreach-count")
	cnt := 0
	bf.RangeWhile(func(hotstuff.ID) bool {
		cnt++
		return false
	})
	if distinct > 0 {
		vcover("nonempty")
		vassert(cnt == 1, "rangewhile-stops-when-told")
	} else {
		vassert(cnt == 0, "rangewhile-empty")
	}
	if distinct < k {
		vcover("duplicate-insert")
	}
	// rebuild from bytes
	bf2 := BitfieldFromBytes(bf.Bytes())
	vassert(bf2.Len() == bf.Len(), "frombytes-len")
	vassert(bf2.Contains(x) == inserted, "frombytes-contains")
}

// C19(b): reconstruction from an arbitrary byte string of length l.
func VH_C19_bitfield_bytes(l int) {
	b := make([]byte, l)
	pop := 0
	for i := range b {
		b[i] = nondetU8("b")
		for j := 0; j < 8; j++ {
			if b[i]&(1<<uint(j)) != 0 {
				pop++
			}
		}
	}
	bf := BitfieldFromBytes(b)
	vobserve("pop", uint64(pop))
	vassert(bf.Len() == pop, "frombytes-len-is-popcount")
	x := nondetU32("x")
	vassume(x >= 1 && x <= 1<<20)
	want := false
	if int(x-1)/8 < l {
		want = b[int(x-1)/8]&(1<<((x-1)%8)) != 0
	}
	vassert(bf.Contains(hotstuff.ID(x)) == want, "frombytes-membership-is-bit-test")
	out := bf.Bytes()
	vassert(len(out) == l, "bytes-length")
	for i := range out {
		vassert(out[i] == b[i], "bytes-round-trip")
	}
	last := hotstuff.ID(0)
	n := 0
	bf.RangeWhile(func(i hotstuff.ID) bool {
		vassert(i > last, "iteration-ascending")
		vassert(b[(i-1)/8]&(1<<((i-1)%8)) != 0, "iteration-only-set-bits")
		last = i
		n++
		return true
	})
	vassert(n == pop, "iteration-count")
	if pop > 1 {
		vcover("multi-bit")
	}
}

// C19(c): Multi / Combine against an ideal set: j single signatures with symbolic signers.
func VH_C19_multi_combine(j int) {
	ec := &ECDSA{}
	sigs := make([]hotstuff.QuorumSignature, j)
	signers := make([]hotstuff.ID, j)
	for i := range sigs {
		signers[i] = hotstuff.ID(nondetU32("signer"))
		sigs[i] = NewMulti(&ECDSASignature{sig: []byte{byte(i)}, signer: signers[i]})
	}
	allDistinct := true
	for a := range signers {
		for b := 0; b < a; b++ {
			if signers[a] == signers[b] {
				allDistinct = false
			}
		}
	}
	res, err := ec.Combine(sigs...)
	if j < 2 {
		return // combining fewer than two signatures: outside this property (C02 states the contract)
	}
	vassert((err == nil) == allDistinct, "combine-succeeds-iff-distinct")
	if err != nil {
		vcover("overlap-rejected")
		vassert(err == ErrCombineOverlap, "overlap-error")
		return
	}
	vcover("combined")
	m := res.(Multi[*ECDSASignature])
	vassert(m.Len() == j, "len-is-number-of-distinct-signers")
	vassert(res.Participants().Len() == j, "participants-len")
	for i := range signers {
		vassert(m.Contains(signers[i]), "contains-each-signer")
	}
	x := hotstuff.ID(nondetU32("x"))
	isIn := false
	for i := range signers {
		if signers[i] == x {
			isIn = true
		}
	}
	vassert(m.Contains(x) == isIn, "contains-iff-signer")
	k := 0
	m.RangeWhile(func(id hotstuff.ID) bool {
		vassert(id == signers[k], "rangewhile-order")
		k++
		return true
	})
	vassert(k == j, "rangewhile-count")
	k = 0
	m.ForEach(func(id hotstuff.ID) { k++ })
	vassert(k == j, "foreach-count")
}
