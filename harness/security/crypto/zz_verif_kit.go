package crypto

// Ideal-signature kit (DESIGN.md §4.1). In the engine crypto/ecdsa.SignASN1/VerifyASN1 and
// ed25519.Sign/Verify are redirected to the V* functions below: a signature is the token
// [tag, owner, digest...], valid iff produced by the owner's key on that digest (EUF-CMA
// idealisation). Natively the same harness code uses real keys and real signatures.

import (
	"crypto/ecdsa"
	"crypto/ed25519"
	"crypto/elliptic"
	"crypto/rand"
	"crypto/sha256"
	"io"
)

var (
	vKeys   []*ecdsa.PrivateKey
	vEdKeys []ed25519.PrivateKey
	vMemo   map[string][]byte // native only: (owner, message) -> signature, so that "the same
	// signature again" means the same bytes although real ECDSA signing is randomised
)

// VResetKeys forgets all keys (called at the start of every harness run).
func VResetKeys() { vKeys, vEdKeys, vMemo = nil, nil, nil }

// VKey returns the ECDSA key of owner i (0-based).
func VKey(i int, symbolic bool) *ecdsa.PrivateKey {
	for len(vKeys) <= i {
		if symbolic {
			vKeys = append(vKeys, &ecdsa.PrivateKey{})
		} else {
			k, err := ecdsa.GenerateKey(elliptic.P256(), rand.Reader)
			if err != nil {
				panic(err)
			}
			vKeys = append(vKeys, k)
		}
	}
	return vKeys[i]
}

// VEdKey returns the Ed25519 key of owner i (0-based). Symbolically the key bytes carry the
// owner index so that the public key derived by the real code identifies the owner.
func VEdKey(i int, symbolic bool) ed25519.PrivateKey {
	for len(vEdKeys) <= i {
		if symbolic {
			k := make([]byte, ed25519.PrivateKeySize)
			k[32] = byte(len(vEdKeys) + 1)
			k[33] = 0xED
			vEdKeys = append(vEdKeys, ed25519.PrivateKey(k))
		} else {
			_, k, err := ed25519.GenerateKey(rand.Reader)
			if err != nil {
				panic(err)
			}
			vEdKeys = append(vEdKeys, k)
		}
	}
	return vEdKeys[i]
}

const vTokLen = 34

func vToken(tag byte, owner byte, digest []byte) []byte {
	t := make([]byte, vTokLen)
	t[0] = tag
	t[1] = owner
	copy(t[2:], digest)
	return t
}

// VSignASN1 replaces ecdsa.SignASN1 in the engine.
func VSignASN1(_ io.Reader, priv *ecdsa.PrivateKey, hash []byte) ([]byte, error) {
	for i, k := range vKeys {
		if k == priv {
			return vToken(0xEC, byte(i), hash), nil
		}
	}
	return vToken(0xEC, 0xFF, hash), nil
}

// VVerifyASN1 replaces ecdsa.VerifyASN1 in the engine.
func VVerifyASN1(pub *ecdsa.PublicKey, hash, sig []byte) bool {
	owner := -1
	for i, k := range vKeys {
		if &k.PublicKey == pub {
			owner = i
		}
	}
	if owner < 0 || len(sig) != vTokLen || len(hash) != 32 {
		return false
	}
	ok := sig[0] == 0xEC && sig[1] == byte(owner)
	for i := 0; i < 32; i++ {
		ok = ok && sig[2+i] == hash[i]
	}
	return ok
}

// VEdSign replaces ed25519.Sign in the engine.
func VEdSign(priv ed25519.PrivateKey, message []byte) []byte {
	d := sha256.Sum256(message)
	return vToken(0xED, priv[32]-1, d[:])
}

// VEdVerify replaces ed25519.Verify in the engine.
func VEdVerify(pub ed25519.PublicKey, message, sig []byte) bool {
	if len(pub) != 32 || pub[1] != 0xED || len(sig) != vTokLen {
		return false
	}
	d := sha256.Sum256(message)
	ok := sig[0] == 0xED && sig[1] == pub[0]-1
	for i := 0; i < 32; i++ {
		ok = ok && sig[2+i] == d[i]
	}
	return ok
}

// VSignAs returns a signature on msg by owner (0-based index; owner >= nkeys: bytes that verify
// for nobody). In the engine owner may be symbolic.
func VSignAs(owner int, nkeys int, msg []byte, symbolic bool, ed bool) []byte {
	d := sha256.Sum256(msg)
	if symbolic {
		tag := byte(0xEC)
		if ed {
			tag = 0xED
		}
		return vToken(tag, byte(owner), d[:])
	}
	if owner < 0 || owner >= nkeys {
		g := make([]byte, 70)
		g[0] = 0x30
		return g
	}
	if ed {
		return ed25519.Sign(VEdKey(owner, false), msg)
	}
	key := string([]byte{byte(owner)}) + string(msg)
	if s, ok := vMemo[key]; ok {
		return s
	}
	s, err := ecdsa.SignASN1(rand.Reader, VKey(owner, false), d[:])
	if err != nil {
		panic(err)
	}
	if vMemo == nil {
		vMemo = map[string][]byte{}
	}
	vMemo[key] = s
	return s
}
