package cert

import (
	"github.com/relab/hotstuff"
	"github.com/relab/hotstuff/core"
	"github.com/relab/hotstuff/internal/proto/clientpb"
)

// C20 (threshold provenance): every certificate check uses exactly QuorumSize(n): certificates
// honestly signed by q-1 replicas (any rotation) are rejected, by q accepted; n covers all
// residues mod 3.
func VH_C20_thresholds(n int, ed int) {
	w := VNewWorld(1, n, ed == 1, 0, vsymbolic(), core.WithAggregateQC())
	q := hotstuff.VQuorumRef(n)
	gen := hotstuff.GetGenesis()
	gqc := hotstuff.NewQuorumCert(nil, 0, gen.Hash())
	vB := hotstuff.View(nondetU64("vB"))
	vassume(vB >= 1 && vB < 1<<40)
	B := hotstuff.VMakeBlock(hotstuff.VHash(0), gen.Hash(), gqc, &clientpb.Batch{}, vB, 1)
	w.Chain.Store(B)
	tview := hotstuff.View(nondetU64("tview"))
	vassume(tview >= 1 && tview < 1<<40)
	start := nondetInt("start")
	vassume(start >= 0 && start < n)
	for _, cnt := range []int{q - 1, q} {
		if cnt < 1 {
			continue
		}
		want := cnt >= q
		// QC and TC signed by cnt replicas of the rotation
		es := make([]VEntry, cnt)
		for i := range es {
			s := (start+i)%n + 1
			es[i] = VEntry{Claimed: hotstuff.ID(s), Owner: s - 1, Msg: 0}
		}
		qc := hotstuff.NewQuorumCert(w.Multi(es, [][]byte{B.ToBytes()}), vB, B.Hash())
		vassert((w.Auth.VerifyQuorumCert(qc) == nil) == want, "qc-accepted-iff-quorum-size-signers")
		tc := hotstuff.NewTimeoutCert(w.Multi(es, [][]byte{tview.ToBytes()}), tview)
		vassert((w.Auth.VerifyTimeoutCert(tc) == nil) == want, "tc-accepted-iff-quorum-size-signers")
		// aggregate QC from cnt honest timeout messages
		if cnt >= 2 {
			var tos []hotstuff.TimeoutMsg
			for i := 0; i < cnt; i++ {
				s := (start+i)%n + 1
				a := w.AuthFor(s, 0, core.WithAggregateQC())
				tm := hotstuff.TimeoutMsg{ID: hotstuff.ID(s), View: tview, SyncInfo: hotstuff.NewSyncInfoWith(gqc)}
				vs, err := a.Sign(tview.ToBytes())
				vassert(err == nil, "sign")
				tm.ViewSignature = vs
				ms, err := a.Sign(tm.ToBytes())
				vassert(err == nil, "sign")
				tm.MsgSignature = ms
				tos = append(tos, tm)
			}
			agg, err := w.Auth.CreateAggregateQC(tview, tos)
			vassert(err == nil, "create-aggqc")
			_, verr := w.Auth.VerifyAggregateQC(agg)
			vassert((verr == nil) == want, "aggqc-accepted-iff-quorum-size-signers")
			vcover("aggqc")
		}
	}
	vassert(w.Cfg.QuorumSize() == q, "config-quorum-size-is-the-global-formula")
	vobserve("q", uint64(q))
}

// C20 (membership): the configuration's threshold follows the configured membership at every
// moment: k replicas with symbolic pairwise distinct ids are added one by one (one of them
// optionally twice); after every addition ReplicaCount is the number of distinct ids added and
// QuorumSize() is the global formula applied to it.
func VH_C20_membership(k int) {
	cfg := core.NewRuntimeConfig(1, nil)
	vassert(cfg.ReplicaCount() == 0, "empty-config-has-no-replicas")
	ids := make([]hotstuff.ID, k)
	for i := range ids {
		ids[i] = hotstuff.ID(nondetU32("id"))
		vassume(ids[i] != 0)
		for j := 0; j < i; j++ {
			vassume(ids[i] != ids[j])
		}
	}
	again := nondetInt("added-twice") // k: none
	vassume(again >= 0 && again <= k)
	for i := range ids {
		cfg.AddReplica(&hotstuff.ReplicaInfo{ID: ids[i]})
		if i == again {
			cfg.AddReplica(&hotstuff.ReplicaInfo{ID: ids[i]})
			vcover("added-twice")
		}
		vassert(cfg.ReplicaCount() == i+1, "replica-count-is-number-of-distinct-ids")
		vassert(cfg.QuorumSize() == hotstuff.QuorumSize(i+1), "threshold-follows-the-configured-membership")
	}
	vobserve("q", uint64(cfg.QuorumSize()))
}
