package cert

import (
	"context"

	"github.com/relab/hotstuff"
	"github.com/relab/hotstuff/core"
	"github.com/relab/hotstuff/core/eventloop"
	"github.com/relab/hotstuff/core/logging"
	"github.com/relab/hotstuff/security/blockchain"
	"github.com/relab/hotstuff/security/crypto"
)

type VNoSender struct{}

func (VNoSender) NewView(hotstuff.ID, hotstuff.SyncInfo) error { return nil }
func (VNoSender) Vote(hotstuff.ID, hotstuff.PartialCert) error { return nil }
func (VNoSender) Timeout(hotstuff.TimeoutMsg)                  {}
func (VNoSender) Propose(*hotstuff.ProposeMsg)                 {}
func (s VNoSender) Sub([]hotstuff.ID) (core.Sender, error)     { return s, nil }
func (VNoSender) RequestBlock(context.Context, hotstuff.Hash) (*hotstuff.Block, bool) {
	return nil, false
}

// VWorld: n replicas with keys, a blockchain, and an authority for replica `self`.
type VWorld struct {
	N     int
	Ed    bool
	Sym   bool
	Chain *blockchain.Blockchain
	Cfg   *core.RuntimeConfig
	Auth  *Authority
}

func VConfig(self int, n int, ed bool, sym bool, opts ...core.RuntimeOption) *core.RuntimeConfig {
	var pk hotstuff.PrivateKey
	if ed {
		pk = crypto.VEdKey(self-1, sym)
	} else {
		pk = crypto.VKey(self-1, sym)
	}
	cfg := core.NewRuntimeConfig(hotstuff.ID(self), pk, opts...)
	for i := 1; i <= n; i++ {
		var pub hotstuff.PublicKey
		if ed {
			pub = crypto.VEdKey(i-1, sym).Public()
		} else {
			pub = &crypto.VKey(i-1, sym).PublicKey
		}
		cfg.AddReplica(&hotstuff.ReplicaInfo{ID: hotstuff.ID(i), PubKey: pub})
	}
	return cfg
}

func VNewWorld(self, n int, ed bool, cache int, sym bool, opts ...core.RuntimeOption) *VWorld {
	crypto.VResetKeys()
	w := &VWorld{N: n, Ed: ed, Sym: sym}
	if cache > 0 {
		opts = append(opts, core.WithCache(uint(cache)))
	}
	w.Cfg = VConfig(self, n, ed, sym, opts...)
	el := eventloop.New(logging.VNop(), 10)
	w.Chain = blockchain.New(el, logging.VNop(), VNoSender{})
	var base crypto.Base
	if ed {
		base = crypto.NewEDDSA(w.Cfg)
	} else {
		base = crypto.NewECDSA(w.Cfg)
	}
	w.Auth = NewAuthority(w.Cfg, w.Chain, base)
	return w
}

// authFor returns an authority of another replica over the same chain (completeness checks).
func (w *VWorld) AuthFor(self int, cache int, opts ...core.RuntimeOption) *Authority {
	if cache > 0 {
		opts = append(opts, core.WithCache(uint(cache)))
	}
	cfg := VConfig(self, w.N, w.Ed, w.Sym, opts...)
	var base crypto.Base
	if w.Ed {
		base = crypto.NewEDDSA(cfg)
	} else {
		base = crypto.NewECDSA(cfg)
	}
	return NewAuthority(cfg, w.Chain, base)
}

// VEntry: one entry of an adversarial multi-signature.
type VEntry struct {
	Claimed hotstuff.ID // label attached to the signature
	Owner   int         // 0-based key that really signed; n = bytes that verify for nobody
	Msg     int         // which message was signed (index into the harness's message table)
}

// multi builds the signature object; msgs[e.Msg] selects the signed bytes.
func (w *VWorld) Multi(es []VEntry, msgs [][]byte) hotstuff.QuorumSignature {
	if w.Ed {
		var sigs []*crypto.EDDSASignature
		for _, e := range es {
			sigs = append(sigs, crypto.RestoreEDDSASignature(w.SignSel(e, msgs), e.Claimed))
		}
		return crypto.NewMulti(sigs...)
	}
	var sigs []*crypto.ECDSASignature
	for _, e := range es {
		sigs = append(sigs, crypto.RestoreECDSASignature(w.SignSel(e, msgs), e.Claimed))
	}
	return crypto.NewMulti(sigs...)
}

// signSel signs the selected message. All candidate messages have the same length, so the
// selection is bytewise (no fork in the engine); the owner stays symbolic as well.
func (w *VWorld) SignSel(e VEntry, msgs [][]byte) []byte {
	if !w.Sym {
		// natively message lengths may differ (DER-encoded ECDSA signatures vary in length)
		return crypto.VSignAs(e.Owner, w.N, msgs[e.Msg], false, w.Ed)
	}
	sel := make([]byte, len(msgs[0]))
	for i := range sel {
		x := msgs[0][i]
		for k := 1; k < len(msgs); k++ {
			if e.Msg == k {
				x = msgs[k][i]
			}
		}
		sel[i] = x
	}
	return crypto.VSignAs(e.Owner, w.N, sel, w.Sym, w.Ed)
}

// honest counts the distinct configured replicas s for which some entry is labelled s, was
// really signed by s's key, and signs message number want.
func (w *VWorld) Honest(es []VEntry, want int) int {
	c := 0
	for s := 1; s <= w.N; s++ {
		found := false
		for _, e := range es {
			if int(e.Claimed) == s && e.Owner == s-1 && e.Msg == want {
				found = true
			}
		}
		if found {
			c++
		}
	}
	return c
}

func VRepeated(es []VEntry) bool {
	r := false
	for a := range es {
		for b := 0; b < a; b++ {
			if es[a].Claimed == es[b].Claimed {
				r = true
			}
		}
	}
	return r
}

// honestQC builds a QC for block b signed by the first cnt replicas; with bad set, the last
// signature is bytes that verify for nobody (same length, so all variants encode equally long).
func (w *VWorld) HonestQC(b *hotstuff.Block, cnt int, bad bool) hotstuff.QuorumCert {
	es := make([]VEntry, cnt)
	for i := range es {
		es[i] = VEntry{Claimed: hotstuff.ID(i + 1), Owner: i, Msg: 0}
		if bad && i == cnt-1 {
			es[i].Owner = w.N
		}
	}
	return hotstuff.NewQuorumCert(w.Multi(es, [][]byte{b.ToBytes()}), b.View(), b.Hash())
}

