package cert

import (
	"container/list"

	"github.com/relab/hotstuff"
	"github.com/relab/hotstuff/security/crypto"
)

func vhPick(c int, m0, m1 []byte, sym bool) []byte {
	if !sym {
		if c == 0 {
			return m0
		}
		return m1
	}
	out := make([]byte, len(m0))
	for i := range out {
		x := m0[i]
		if c != 0 {
			x = m1[i]
		}
		out[i] = x
	}
	return out
}

// C11: a sequence of l operations (ops encodes them base 3: 0 verify, 1 batch-verify, 2 sign
// then verify a relabelled copy) on a cached and an uncached base over the same membership; the
// verdicts must agree after every operation.
func VH_C11_seq(l int, ops int, capacity int, ed int) {
	n := 4
	w := VNewWorld(1, n, ed == 1, 0, vsymbolic())
	var plain, inner crypto.Base
	if w.Ed {
		plain, inner = crypto.NewEDDSA(w.Cfg), crypto.NewEDDSA(w.Cfg)
	} else {
		plain, inner = crypto.NewECDSA(w.Cfg), crypto.NewECDSA(w.Cfg)
	}
	cached := &Cache{impl: inner, capacity: capacity, entries: make(map[string]*list.Element, capacity)}
	m0 := []byte{nondetU8("m0"), nondetU8("m0")}
	m1 := []byte{nondetU8("m1"), nondetU8("m1")}
	msgs := [][]byte{m0, m1}
	code := ops
	for step := 0; step < l; step++ {
		op := code % 3
		code /= 3
		switch op {
		case 0:
			es := vhEntries(w, 2, 2)
			sig := w.Multi(es, msgs)
			msg := vhPick(nondetInt("verify-msg")&1, m0, m1, w.Sym)
			e1 := plain.Verify(sig, msg)
			e2 := cached.Verify(sig, msg)
			vobserve("verify", vhB(e1 == nil))
			if e1 == nil {
				vcover("verify-accepts")
			}
			vassert((e1 == nil) == (e2 == nil), "cache-verify-verdict-equals-uncached")
		case 1:
			es := vhEntries(w, 2, 2)
			sig := w.Multi(es, msgs)
			batch := map[hotstuff.ID][]byte{
				1: vhPick(nondetInt("batch-msg")&1, m0, m1, w.Sym),
				2: vhPick(nondetInt("batch-msg")&1, m0, m1, w.Sym),
			}
			e1 := plain.BatchVerify(sig, batch)
			e2 := cached.BatchVerify(sig, batch)
			vobserve("batch", vhB(e1 == nil))
			if e1 == nil {
				vcover("batch-accepts")
			}
			vassert((e1 == nil) == (e2 == nil), "cache-batchverify-verdict-equals-uncached")
		default:
			// the replica signs (which primes the cache), then the same bytes come back under a
			// possibly different signer label and message
			msg := vhPick(nondetInt("sign-msg")&1, m0, m1, w.Sym)
			s, err := cached.Sign(msg)
			vassert(err == nil, "sign-succeeds")
			if err != nil {
				return
			}
			label := hotstuff.ID(nondetU32("relabel"))
			var back hotstuff.QuorumSignature
			if w.Ed {
				back = crypto.NewMulti(crypto.RestoreEDDSASignature(s.ToBytes(), label))
			} else {
				back = crypto.NewMulti(crypto.RestoreECDSASignature(s.ToBytes(), label))
			}
			msg2 := vhPick(nondetInt("verify-msg")&1, m0, m1, w.Sym)
			e1 := plain.Verify(back, msg2)
			e2 := cached.Verify(back, msg2)
			vobserve("signed", vhB(e1 == nil))
			if e1 == nil {
				vcover("own-signature-accepted")
			}
			vassert((e1 == nil) == (e2 == nil), "cache-verify-of-own-signature-equals-uncached")
		}
		vassert(len(cached.entries) <= capacity, "cache-never-exceeds-capacity")
		vassert(cached.accessOrder.Len() == len(cached.entries), "cache-index-consistent")
	}
}

func vhBatchShape(p int, x []byte) map[hotstuff.ID][]byte {
	switch p {
	case 0:
		return map[hotstuff.ID][]byte{1: x[0:2], 2: x[2:3]}
	case 1:
		return map[hotstuff.ID][]byte{1: x[0:1], 2: x[1:3]}
	case 2:
		return map[hotstuff.ID][]byte{1: x[0:2], 3: x[2:3]}
	case 3: // a superset of shape 0: one more entry for a third replica
		return map[hotstuff.ID][]byte{1: x[0:2], 2: x[2:3], 3: x[0:1]}
	default: // a subset of shape 0
		return map[hotstuff.ID][]byte{1: x[0:2]}
	}
}

// C11(b): two batch verifications of one signature object against batches of different shape
// (same bytes split differently, or attributed to another signer).
func VH_C11_batchkey(p1 int, p2 int, capacity int) {
	n := 4
	w := VNewWorld(1, n, false, 0, vsymbolic())
	plain, inner := crypto.NewECDSA(w.Cfg), crypto.NewECDSA(w.Cfg)
	cached := &Cache{impl: inner, capacity: capacity, entries: make(map[string]*list.Element, capacity)}
	x := []byte{nondetU8("x"), nondetU8("x"), nondetU8("x")}
	y := []byte{nondetU8("y"), nondetU8("y"), nondetU8("y")}
	b1 := vhBatchShape(p1, x)
	b2 := vhBatchShape(p2, y)
	// the signature: two entries, each signs one of the four messages in play
	var all [][]byte
	for _, id := range []hotstuff.ID{1, 2, 3} {
		if m, ok := b1[id]; ok {
			all = append(all, m)
		}
	}
	for _, id := range []hotstuff.ID{1, 2, 3} {
		if m, ok := b2[id]; ok {
			all = append(all, m)
		}
	}
	var sigs []*crypto.ECDSASignature
	for j := 0; j < 2; j++ {
		claimed := hotstuff.ID(nondetU32("claimed"))
		owner := nondetInt("owner")
		vassume(owner >= 0 && owner <= n)
		which := nondetInt("which")
		vassume(which >= 0 && which < len(all))
		var sb []byte
		for i := range all {
			if which == i {
				sb = crypto.VSignAs(owner, n, all[i], w.Sym, false)
			}
		}
		sigs = append(sigs, crypto.RestoreECDSASignature(sb, claimed))
	}
	sig := crypto.NewMulti(sigs...)
	e1 := plain.BatchVerify(sig, b1)
	c1 := cached.BatchVerify(sig, b1)
	vobserve("first", vhB(e1 == nil))
	vassert((e1 == nil) == (c1 == nil), "cache-batchverify-verdict-equals-uncached")
	if e1 == nil {
		vcover("first-accepted")
	}
	e2 := plain.BatchVerify(sig, b2)
	c2 := cached.BatchVerify(sig, b2)
	vobserve("second", vhB(e2 == nil))
	vassert((e2 == nil) == (c2 == nil), "cache-second-batchverify-verdict-equals-uncached")
}

// C11(c): a plain verification followed by a batch verification of the same signature object
// (and the other way round). The plain message has the shape id || length || m, the batch is
// {id: m}: the two queries are different and must not share a cache entry.
func VH_C11_cross(order int, capacity int) {
	n := 4
	w := VNewWorld(1, n, false, 0, vsymbolic())
	plain, inner := crypto.NewECDSA(w.Cfg), crypto.NewECDSA(w.Cfg)
	cached := &Cache{impl: inner, capacity: capacity, entries: make(map[string]*list.Element, capacity)}
	m := []byte{nondetU8("m")}
	id := hotstuff.ID(1)
	long := append(append(append([]byte{}, id.ToBytes()...), hotstuff.View(len(m)).ToBytes()...), m...)
	claimed := hotstuff.ID(nondetU32("claimed"))
	owner := nondetInt("owner")
	vassume(owner >= 0 && owner <= n)
	var sb []byte
	if nondetBool("signs-the-long-message") {
		sb = crypto.VSignAs(owner, n, long, w.Sym, false)
	} else {
		sb = crypto.VSignAs(owner, n, m, w.Sym, false)
	}
	sig := crypto.NewMulti(crypto.RestoreECDSASignature(sb, claimed))
	batch := map[hotstuff.ID][]byte{id: m}
	for step := 0; step < 2; step++ {
		if (step == 0) == (order == 0) {
			e1 := plain.Verify(sig, long)
			e2 := cached.Verify(sig, long)
			vobserve("verify", vhB(e1 == nil))
			if e1 == nil {
				vcover("verify-accepts")
			}
			vassert((e1 == nil) == (e2 == nil), "cache-verify-verdict-equals-uncached")
		} else {
			e1 := plain.BatchVerify(sig, batch)
			e2 := cached.BatchVerify(sig, batch)
			vobserve("batch", vhB(e1 == nil))
			vassert((e1 == nil) == (e2 == nil), "cache-batchverify-verdict-equals-uncached")
		}
	}
}

// C11(d): eviction. l plain verifications of one-entry signatures (claimed signer, owner and
// message symbolic) against a cache of the given capacity: re-verification after eviction, hits
// after other insertions, failed verifications in between.
func VH_C11_evict(l int, capacity int) {
	n := 4
	w := VNewWorld(1, n, false, 0, vsymbolic())
	plain, inner := crypto.NewECDSA(w.Cfg), crypto.NewECDSA(w.Cfg)
	cached := &Cache{impl: inner, capacity: capacity, entries: make(map[string]*list.Element, capacity)}
	m0 := []byte{nondetU8("m0"), nondetU8("m0")}
	m1 := []byte{nondetU8("m1"), nondetU8("m1")}
	msgs := [][]byte{m0, m1}
	accepted := 0
	for step := 0; step < l; step++ {
		es := vhEntries(w, 1, 2)
		sig := w.Multi(es, msgs)
		msg := vhPick(nondetInt("verify-msg")&1, m0, m1, w.Sym)
		e1 := plain.Verify(sig, msg)
		e2 := cached.Verify(sig, msg)
		vobserve("verify", vhB(e1 == nil))
		if e1 == nil {
			accepted++
		}
		vassert((e1 == nil) == (e2 == nil), "cache-verify-verdict-equals-uncached")
		vassert(len(cached.entries) <= capacity, "cache-never-exceeds-capacity")
		vassert(cached.accessOrder.Len() == len(cached.entries), "cache-index-consistent")
		for e := cached.accessOrder.Front(); e != nil; e = e.Next() {
			_, ok := cached.entries[e.Value.(string)]
			vassert(ok, "every-listed-key-is-indexed")
		}
	}
	if accepted >= 2 {
		vcover("several-accepted")
	}
}

// C11(e): messages of different lengths. The cache is primed with a signature over a short
// message m (by signing it, prime = 0, or by verifying an honest signature of replica 2 over it,
// prime = 1); the same signature then comes back with m extended by one byte, with m cut by one
// byte, and with m itself. mlen is the length of m (symbolic bytes, zero bytes included).
func VH_C11_lengths(mlen int, prime int, capacity int, ed int) {
	n := 4
	w := VNewWorld(1, n, ed == 1, 0, vsymbolic())
	var plain, inner crypto.Base
	if w.Ed {
		plain, inner = crypto.NewEDDSA(w.Cfg), crypto.NewEDDSA(w.Cfg)
	} else {
		plain, inner = crypto.NewECDSA(w.Cfg), crypto.NewECDSA(w.Cfg)
	}
	cached := &Cache{impl: inner, capacity: capacity, entries: make(map[string]*list.Element, capacity)}
	m := make([]byte, mlen)
	for i := range m {
		m[i] = nondetU8("m")
	}
	var sig hotstuff.QuorumSignature
	if prime == 0 {
		s, err := cached.Sign(m)
		vassert(err == nil, "sign-succeeds")
		if err != nil {
			return
		}
		sig = s
	} else {
		sig = w.Multi([]VEntry{{Claimed: 2, Owner: 1, Msg: 0}}, [][]byte{m})
		e1, e2 := plain.Verify(sig, m), cached.Verify(sig, m)
		vassert(e1 == nil && e2 == nil, "honest-signature-verifies")
	}
	longer := append(append([]byte{}, m...), nondetU8("tail"))
	for _, msg := range [][]byte{longer, m[:mlen-1], m} {
		e1 := plain.Verify(sig, msg)
		e2 := cached.Verify(sig, msg)
		vassert((e1 == nil) == (e2 == nil), "cache-verdict-equals-uncached-for-a-message-of-another-length")
	}
	vcover("lengths")
	vobserve("len", uint64(mlen))
}
