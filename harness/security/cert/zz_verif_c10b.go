package cert

import (
	"github.com/relab/hotstuff"
	"github.com/relab/hotstuff/core"
	"github.com/relab/hotstuff/internal/proto/clientpb"
)

// C10(b): mutually inconsistent but individually plausible fields: a proposal carries a
// genuinely valid aggregate QC (replayable by any peer) and a block QC that has the high QC's
// hash and view but another signature shape. shape: 0 the high QC itself, 1 no signature,
// 2 empty signature list, 3 one signature fewer, 4 another view label.
func VH_C10_anyqc(n int, shape int, genesisHigh int, ed int) {
	w := VNewWorld(1, n, ed == 1, 0, vsymbolic(), core.WithAggregateQC())
	q := hotstuff.VQuorumRef(n)
	gen := hotstuff.GetGenesis()
	gqc := hotstuff.NewQuorumCert(nil, 0, gen.Hash())
	vB := hotstuff.View(nondetU64("vB"))
	vassume(vB >= 1 && vB < 1<<40)
	B := hotstuff.VMakeBlock(hotstuff.VHash(0), gen.Hash(), gqc, &clientpb.Batch{}, vB, 1)
	w.Chain.Store(B)
	high := w.HonestQC(B, q, false)
	if genesisHigh == 1 {
		high = gqc
	}
	// q honest timeout messages attesting `high`
	tview := hotstuff.View(nondetU64("tview"))
	vassume(tview >= 1 && tview < 1<<40)
	var tos []hotstuff.TimeoutMsg
	for s := 1; s <= q; s++ {
		a := w.AuthFor(s, 0, core.WithAggregateQC())
		tm := hotstuff.TimeoutMsg{ID: hotstuff.ID(s), View: tview, SyncInfo: hotstuff.NewSyncInfoWith(high)}
		vs, err := a.Sign(tview.ToBytes())
		vassert(err == nil, "sign")
		tm.ViewSignature = vs
		ms, err := a.Sign(tm.ToBytes())
		vassert(err == nil, "sign")
		tm.MsgSignature = ms
		tos = append(tos, tm)
	}
	agg, err := w.Auth.CreateAggregateQC(tview, tos)
	vassert(err == nil, "create-aggqc")
	var bqc hotstuff.QuorumCert
	same := false
	switch shape {
	case 0:
		bqc, same = high, true
	case 1:
		bqc = hotstuff.NewQuorumCert(nil, high.View(), high.BlockHash())
		same = high.Signature() == nil
	case 2:
		bqc = hotstuff.NewQuorumCert(w.Multi(nil, nil), high.View(), high.BlockHash())
	case 3:
		bqc = hotstuff.NewQuorumCert(w.HonestQC(B, q-1, false).Signature(), high.View(), high.BlockHash())
	default:
		bqc = hotstuff.NewQuorumCert(high.Signature(), high.View()+1, high.BlockHash())
	}
	blk := hotstuff.VMakeBlock(hotstuff.VHash(1), high.BlockHash(), bqc, &clientpb.Batch{}, tview+1, 2)
	p := &hotstuff.ProposeMsg{ID: 2, Block: blk, AggregateQC: &agg}
	verr := w.Auth.VerifyAnyQC(p)
	vobserve("accepted", vhB(verr == nil))
	vcover("checked")
	vassert((verr == nil) == same, "proposal-accepted-iff-block-qc-is-the-aggregates-high-qc")
}
