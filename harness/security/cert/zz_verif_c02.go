package cert

import (
	"github.com/relab/hotstuff"
	"github.com/relab/hotstuff/core"
	"github.com/relab/hotstuff/internal/proto/clientpb"
)

func vhEntries(w *VWorld, m int, nmsgs int) []VEntry {
	es := make([]VEntry, m)
	for j := range es {
		es[j].Claimed = hotstuff.ID(nondetU32("claimed"))
		es[j].Owner = nondetInt("owner")
		vassume(es[j].Owner >= 0 && es[j].Owner <= w.N)
		es[j].Msg = nondetInt("msg")
		vassume(es[j].Msg >= 0 && es[j].Msg < nmsgs)
	}
	return es
}


// C02(a): VerifyQuorumCert soundness. Block B (view vB) and block B2 (view vB2) are stored; the
// QC names B, B2 or an unknown hash, carries any view label, and m adversarial entries.
func VH_C02_qc(n int, m int, cache int, ed int) {
	w := VNewWorld(1, n, ed == 1, cache, vsymbolic())
	vB := hotstuff.View(nondetU64("vB"))
	vB2 := hotstuff.View(nondetU64("vB2"))
	vassume(vB >= 1 && vB2 >= 1)
	gen := hotstuff.GetGenesis()
	gqc := hotstuff.NewQuorumCert(nil, 0, gen.Hash())
	B := hotstuff.VMakeBlock(hotstuff.VHash(0), gen.Hash(), gqc, &clientpb.Batch{}, vB, 1)
	B2 := hotstuff.VMakeBlock(hotstuff.VHash(1), gen.Hash(), gqc, &clientpb.Batch{}, vB2, 2)
	w.Chain.Store(B)
	w.Chain.Store(B2)
	label := hotstuff.View(nondetU64("label"))
	// a third, foreign message of the same length: B's bytes with a different view
	B3 := hotstuff.VMakeBlock(hotstuff.VHash(2), gen.Hash(), gqc, &clientpb.Batch{}, vB+1, 1)
	msgs := [][]byte{B.ToBytes(), B2.ToBytes(), B3.ToBytes()}
	es := vhEntries(w, m, len(msgs))
	target := nondetInt("target") // 0: B, 1: B2, 2: unknown hash
	vassume(target >= 0 && target <= 2)
	var h hotstuff.Hash
	var tview hotstuff.View
	switch target {
	case 0:
		h, tview = B.Hash(), vB
	case 1:
		h, tview = B2.Hash(), vB2
	default:
		h = hotstuff.VHash(100)
	}
	qc := hotstuff.NewQuorumCert(w.Multi(es, msgs), label, h)
	vclass("repeated-claimed-signer", VRepeated(es))
	vclass("view-label-differs-from-block-view", target <= 1 && label != tview)
	err := w.Auth.VerifyQuorumCert(qc)
	q := hotstuff.VQuorumRef(n)
	vobserve("accepted", vhB(err == nil))
	if err == nil {
		vcover("accepted")
		vassert(target <= 1, "accepted-qc-names-a-known-block")
		vassert(w.Honest(es, target) >= q, "accepted-qc-has-quorum-of-distinct-valid-signatures")
		vassert(label == tview, "accepted-qc-view-is-the-certified-blocks-view")
	} else if target <= 1 && w.Honest(es, target) >= q && !VRepeated(es) && label == tview && len(es) == w.Honest(es, target) {
		// completeness for adversary-free lists is checked in VH_C02_complete
		vassert(false, "honest-quorum-rejected")
	}
	// a second verification (cache warm) gives the same verdict
	err2 := w.Auth.VerifyQuorumCert(qc)
	vassert((err2 == nil) == (err == nil), "verdict-stable-on-repeat")
}

func vhB(b bool) uint64 {
	if b {
		return 1
	}
	return 0
}

// C02(b): VerifyTimeoutCert soundness.
func VH_C02_tc(n int, m int, cache int, ed int) {
	w := VNewWorld(1, n, ed == 1, cache, vsymbolic())
	label := hotstuff.View(nondetU64("label"))
	msgs := [][]byte{label.ToBytes(), (label + 1).ToBytes(), (label ^ 1<<40).ToBytes()}
	es := vhEntries(w, m, len(msgs))
	tc := hotstuff.NewTimeoutCert(w.Multi(es, msgs), label)
	vclass("repeated-claimed-signer", VRepeated(es))
	err := w.Auth.VerifyTimeoutCert(tc)
	q := hotstuff.VQuorumRef(n)
	vobserve("accepted", vhB(err == nil))
	if err == nil {
		vcover("accepted")
		if label != 0 {
			vcover("accepted-nonzero-view")
			vassert(w.Honest(es, 0) >= q, "accepted-tc-has-quorum-of-distinct-valid-signatures")
		}
	}
	err2 := w.Auth.VerifyTimeoutCert(tc)
	vassert((err2 == nil) == (err == nil), "verdict-stable-on-repeat")
}

// C02(d): VerifyPartialCert soundness: accepted only if every entry is a valid signature of
// its claimed, configured signer over the named stored block.
func VH_C02_pc(n int, m int, cache int, ed int) {
	w := VNewWorld(1, n, ed == 1, cache, vsymbolic())
	vB := hotstuff.View(nondetU64("vB"))
	gen := hotstuff.GetGenesis()
	gqc := hotstuff.NewQuorumCert(nil, 0, gen.Hash())
	B := hotstuff.VMakeBlock(hotstuff.VHash(0), gen.Hash(), gqc, &clientpb.Batch{}, vB, 1)
	B2 := hotstuff.VMakeBlock(hotstuff.VHash(1), gen.Hash(), gqc, &clientpb.Batch{}, vB+1, 1)
	w.Chain.Store(B)
	msgs := [][]byte{B.ToBytes(), B2.ToBytes()}
	es := vhEntries(w, m, len(msgs))
	known := nondetBool("names-known-block")
	h := B.Hash()
	if !known {
		h = hotstuff.VHash(100)
	}
	pc := hotstuff.NewPartialCert(w.Multi(es, msgs), h)
	err := w.Auth.VerifyPartialCert(pc)
	vobserve("accepted", vhB(err == nil))
	if err == nil {
		vcover("accepted")
		vassert(known, "accepted-vote-names-a-known-block")
		vassert(m >= 1, "accepted-vote-has-a-signature")
		for _, e := range es {
			vassert(int(e.Claimed) >= 1 && int(e.Claimed) <= n && e.Owner == int(e.Claimed)-1 && e.Msg == 0, "accepted-vote-entries-all-valid")
		}
		vassert(w.Honest(es, 0) == m, "accepted-vote-signers-distinct")
		if m >= 1 {
			_ = pc.Signer()
		}
	}
}

// rot returns the 1-based replica that is i-th in the rotation starting at start.
func vhRot(start, i, n int) int { return (start+i)%n + 1 }

// C02(e): completeness. A quorum of honest replicas (any rotation of the membership) signs a
// block / a view / their timeout messages; the assembled certificates verify at every replica.
func VH_C02_complete(n int, extra int, cache int, ed int) {
	w := VNewWorld(1, n, ed == 1, cache, vsymbolic())
	q := hotstuff.VQuorumRef(n)
	cnt := q + extra
	vassume(cnt <= n && cnt >= 2)
	start := nondetInt("start")
	vassume(start >= 0 && start < n)
	vB := hotstuff.View(nondetU64("vB"))
	vassume(vB >= 1)
	gen := hotstuff.GetGenesis()
	gqc := hotstuff.NewQuorumCert(nil, 0, gen.Hash())
	B := hotstuff.VMakeBlock(hotstuff.VHash(0), gen.Hash(), gqc, &clientpb.Batch{}, vB, 1)
	w.Chain.Store(B)
	auths := make([]*Authority, n+1)
	for s := 1; s <= n; s++ {
		auths[s] = w.AuthFor(s, cache, core.WithAggregateQC())
	}
	// votes -> QC
	var pcs []hotstuff.PartialCert
	for i := 0; i < cnt; i++ {
		s := vhRot(start, i, n)
		pc, err := auths[s].CreatePartialCert(B)
		vassert(err == nil, "create-partial-cert")
		vassert(pc.Signer() == hotstuff.ID(s), "partial-cert-signer")
		vassert(auths[1].VerifyPartialCert(pc) == nil, "honest-vote-verifies")
		pcs = append(pcs, pc)
	}
	qc, err := auths[1].CreateQuorumCert(B, pcs)
	vassert(err == nil, "create-qc")
	vassert(qc.View() == vB && qc.BlockHash() == B.Hash(), "qc-names-block-and-view")
	vassert(qc.Signature().Participants().Len() == cnt, "qc-participants")
	// a second valid certificate for the same block, from another quorum (replicas may hold
	// different certificates for one block); every other timeout attests it
	qc2 := qc
	if n > cnt && nondetBool("signers-hold-different-qcs-for-the-block") {
		var pcs2 []hotstuff.PartialCert
		for i := 0; i < cnt; i++ {
			pc, err := auths[vhRot(start+1, i, n)].CreatePartialCert(B)
			vassert(err == nil, "create-partial-cert")
			pcs2 = append(pcs2, pc)
		}
		q2, err := auths[1].CreateQuorumCert(B, pcs2)
		vassert(err == nil, "create-qc")
		qc2 = q2
		vcover("two-qcs-for-one-block")
	}
	// timeouts -> TC and AggQC
	tview := hotstuff.View(nondetU64("tview"))
	vassume(tview >= 1)
	var tos []hotstuff.TimeoutMsg
	for i := 0; i < cnt; i++ {
		s := vhRot(start, i, n)
		vs, err := auths[s].Sign(tview.ToBytes())
		vassert(err == nil, "sign-view")
		mine := qc
		if i%2 == 1 {
			mine = qc2
		}
		tm := hotstuff.TimeoutMsg{ID: hotstuff.ID(s), View: tview, ViewSignature: vs, SyncInfo: hotstuff.NewSyncInfoWith(mine)}
		ms, err := auths[s].Sign(tm.ToBytes())
		vassert(err == nil, "sign-timeout-message")
		tm.MsgSignature = ms
		tos = append(tos, tm)
	}
	tc, err := auths[1].CreateTimeoutCert(tview, tos)
	vassert(err == nil, "create-tc")
	agg, err := auths[1].CreateAggregateQC(tview, tos)
	vassert(err == nil, "create-aggqc")
	vcover("assembled")
	for s := 1; s <= n; s++ {
		vassert(auths[s].VerifyQuorumCert(qc) == nil, "honest-qc-verifies-everywhere")
		vassert(auths[s].VerifyTimeoutCert(tc) == nil, "honest-tc-verifies-everywhere")
		high, err := auths[s].VerifyAggregateQC(agg)
		vassert(err == nil, "honest-aggqc-verifies-everywhere")
		if err == nil {
			vassert(high.Equals(qc) || high.Equals(qc2), "aggqc-high-qc-is-the-attested-qc")
		}
	}
}

// C02(c): VerifyAggregateQC soundness. r attested QCs (pattern pat picks, per entry, a valid QC
// for B, a valid QC for B2 or an invalid QC for B), ids by idpat, m adversarial entries in the
// aggregate signature.
func VH_C02_agg(n int, r int, m int, pat int, idpat int, ed int) {
	w := VNewWorld(1, n, ed == 1, 0, vsymbolic(), core.WithAggregateQC())
	q := hotstuff.VQuorumRef(n)
	vB := hotstuff.View(nondetU64("vB"))
	vB2 := hotstuff.View(nondetU64("vB2"))
	vassume(vB >= 1 && vB2 >= 1 && vB < 1<<62 && vB2 < 1<<62)
	gen := hotstuff.GetGenesis()
	gqc := hotstuff.NewQuorumCert(nil, 0, gen.Hash())
	B := hotstuff.VMakeBlock(hotstuff.VHash(0), gen.Hash(), gqc, &clientpb.Batch{}, vB, 1)
	B2 := hotstuff.VMakeBlock(hotstuff.VHash(1), gen.Hash(), gqc, &clientpb.Batch{}, vB2, 2)
	w.Chain.Store(B)
	w.Chain.Store(B2)
	variants := []hotstuff.QuorumCert{w.HonestQC(B, q, false), w.HonestQC(B2, q, false), w.HonestQC(B, q, true)}
	aggView := hotstuff.View(nondetU64("aggview"))
	ids := make([]hotstuff.ID, r)
	kinds := make([]int, r)
	qcs := make(map[hotstuff.ID]hotstuff.QuorumCert)
	var msgs [][]byte
	p := pat
	for i := 0; i < r; i++ {
		switch idpat {
		case 0:
			ids[i] = hotstuff.ID(i + 1)
		case 1:
			ids[i] = hotstuff.ID(n - i)
		default:
			ids[i] = hotstuff.ID(i + 1)
			if i == r-1 {
				ids[i] = hotstuff.ID(n + 5) // not a member
			}
		}
		kinds[i] = p % 3
		p /= 3
		qcs[ids[i]] = variants[kinds[i]]
		msgs = append(msgs, hotstuff.TimeoutMsg{ID: ids[i], View: aggView, SyncInfo: hotstuff.NewSyncInfoWith(variants[kinds[i]])}.ToBytes())
	}
	// a foreign message: entry 0's message for another view
	msgs = append(msgs, hotstuff.TimeoutMsg{ID: ids[0], View: aggView + 1, SyncInfo: hotstuff.NewSyncInfoWith(variants[kinds[0]])}.ToBytes())
	es := vhEntries(w, m, len(msgs))
	agg := hotstuff.NewAggregateQC(qcs, w.Multi(es, msgs), aggView)
	high, err := w.Auth.VerifyAggregateQC(agg)
	vobserve("accepted", vhB(err == nil))
	if err != nil {
		return
	}
	vcover("accepted")
	// ground truth: distinct configured signers that signed their own timeout message
	c := 0
	for s := 1; s <= n; s++ {
		ok := false
		for _, e := range es {
			for i := 0; i < r; i++ {
				if int(ids[i]) == s && int(e.Claimed) == s && e.Owner == s-1 && e.Msg == i {
					ok = true
				}
			}
		}
		if ok {
			c++
		}
	}
	vassert(c >= q, "accepted-aggqc-has-quorum-of-own-message-signatures")
	// the reported high QC is a valid attested QC of maximal view
	isAttested := false
	var best hotstuff.View
	anyValid := false
	for i := 0; i < r; i++ {
		// attested: entry i's timeout message carries a valid signature of replica ids[i]
		att := false
		for _, e := range es {
			if e.Claimed == ids[i] && int(ids[i]) >= 1 && int(ids[i]) <= n && e.Owner == int(ids[i])-1 && e.Msg == i {
				att = true
			}
		}
		vassert(att, "every-qc-in-an-accepted-aggqc-is-attested-by-its-signer")
		if kinds[i] == 2 || !att {
			continue
		}
		anyValid = true
		v := vB
		if kinds[i] == 1 {
			v = vB2
		}
		if v > best {
			best = v
		}
		if high.Equals(variants[kinds[i]]) {
			isAttested = true
		}
	}
	vassert(anyValid, "accepted-aggqc-attests-a-valid-qc")
	vassert(isAttested, "high-qc-is-a-valid-attested-qc")
	vassert(high.View() == best, "high-qc-has-the-highest-view-among-valid-attested")
	vassert(w.Auth.VerifyQuorumCert(high) == nil, "high-qc-verifies")
}
