package cert

import (
	"context"

	"github.com/relab/hotstuff"
	"github.com/relab/hotstuff/core"
	"github.com/relab/hotstuff/core/eventloop"
	"github.com/relab/hotstuff/core/logging"
	"github.com/relab/hotstuff/internal/proto/clientpb"
	"github.com/relab/hotstuff/security/blockchain"
	"github.com/relab/hotstuff/security/crypto"
)

type vhNoSender struct{}

func (vhNoSender) NewView(hotstuff.ID, hotstuff.SyncInfo) error { return nil }
func (vhNoSender) Vote(hotstuff.ID, hotstuff.PartialCert) error { return nil }
func (vhNoSender) Timeout(hotstuff.TimeoutMsg)                  {}
func (vhNoSender) Propose(*hotstuff.ProposeMsg)                 {}
func (s vhNoSender) Sub([]hotstuff.ID) (core.Sender, error)     { return s, nil }
func (vhNoSender) RequestBlock(context.Context, hotstuff.Hash) (*hotstuff.Block, bool) {
	return nil, false
}

// vhWorld: n replicas with keys, a blockchain, and an authority for replica `self`.
type vhWorld struct {
	n     int
	ed    bool
	sym   bool
	chain *blockchain.Blockchain
	cfg   *core.RuntimeConfig
	auth  *Authority
}

func vhConfig(self int, n int, ed bool, sym bool, opts ...core.RuntimeOption) *core.RuntimeConfig {
	var pk hotstuff.PrivateKey
	if ed {
		pk = crypto.VEdKey(self-1, sym)
	} else {
		pk = crypto.VKey(self-1, sym)
	}
	cfg := core.NewRuntimeConfig(hotstuff.ID(self), pk, opts...)
	for i := 1; i <= n; i++ {
		var pub hotstuff.PublicKey
		if ed {
			pub = crypto.VEdKey(i-1, sym).Public()
		} else {
			pub = &crypto.VKey(i-1, sym).PublicKey
		}
		cfg.AddReplica(&hotstuff.ReplicaInfo{ID: hotstuff.ID(i), PubKey: pub})
	}
	return cfg
}

func vhNewWorld(self, n int, ed bool, cache int, opts ...core.RuntimeOption) *vhWorld {
	sym := vsymbolic()
	crypto.VResetKeys()
	w := &vhWorld{n: n, ed: ed, sym: sym}
	if cache > 0 {
		opts = append(opts, core.WithCache(uint(cache)))
	}
	w.cfg = vhConfig(self, n, ed, sym, opts...)
	el := eventloop.New(logging.VNop(), 10)
	w.chain = blockchain.New(el, logging.VNop(), vhNoSender{})
	var base crypto.Base
	if ed {
		base = crypto.NewEDDSA(w.cfg)
	} else {
		base = crypto.NewECDSA(w.cfg)
	}
	w.auth = NewAuthority(w.cfg, w.chain, base)
	return w
}

// authFor returns an authority of another replica over the same chain (completeness checks).
func (w *vhWorld) authFor(self int, cache int, opts ...core.RuntimeOption) *Authority {
	if cache > 0 {
		opts = append(opts, core.WithCache(uint(cache)))
	}
	cfg := vhConfig(self, w.n, w.ed, w.sym, opts...)
	var base crypto.Base
	if w.ed {
		base = crypto.NewEDDSA(cfg)
	} else {
		base = crypto.NewECDSA(cfg)
	}
	return NewAuthority(cfg, w.chain, base)
}

// sigEntry: one entry of an adversarial multi-signature.
type vhEntry struct {
	claimed hotstuff.ID // label attached to the signature
	owner   int         // 0-based key that really signed; n = bytes that verify for nobody
	msg     int         // which message was signed (index into the harness's message table)
}

func (w *vhWorld) entries(m int, nmsgs int) []vhEntry {
	es := make([]vhEntry, m)
	for j := range es {
		es[j].claimed = hotstuff.ID(nondetU32("claimed"))
		es[j].owner = nondetInt("owner")
		vassume(es[j].owner >= 0 && es[j].owner <= w.n)
		es[j].msg = nondetInt("msg")
		vassume(es[j].msg >= 0 && es[j].msg < nmsgs)
	}
	return es
}

// multi builds the signature object; msgs[e.msg] selects the signed bytes.
func (w *vhWorld) multi(es []vhEntry, msgs [][]byte) hotstuff.QuorumSignature {
	if w.ed {
		var sigs []*crypto.EDDSASignature
		for _, e := range es {
			sigs = append(sigs, crypto.RestoreEDDSASignature(w.signSel(e, msgs), e.claimed))
		}
		return crypto.NewMulti(sigs...)
	}
	var sigs []*crypto.ECDSASignature
	for _, e := range es {
		sigs = append(sigs, crypto.RestoreECDSASignature(w.signSel(e, msgs), e.claimed))
	}
	return crypto.NewMulti(sigs...)
}

// signSel signs the selected message. All candidate messages have the same length, so the
// selection is bytewise (no fork in the engine); the owner stays symbolic as well.
func (w *vhWorld) signSel(e vhEntry, msgs [][]byte) []byte {
	sel := make([]byte, len(msgs[0]))
	for i := range sel {
		x := msgs[0][i]
		for k := 1; k < len(msgs); k++ {
			if e.msg == k {
				x = msgs[k][i]
			}
		}
		sel[i] = x
	}
	return crypto.VSignAs(e.owner, w.n, sel, w.sym, w.ed)
}

// honest counts the distinct configured replicas s for which some entry is labelled s, was
// really signed by s's key, and signs message number want.
func (w *vhWorld) honest(es []vhEntry, want int) int {
	c := 0
	for s := 1; s <= w.n; s++ {
		found := false
		for _, e := range es {
			if int(e.claimed) == s && e.owner == s-1 && e.msg == want {
				found = true
			}
		}
		if found {
			c++
		}
	}
	return c
}

func vhRepeated(es []vhEntry) bool {
	r := false
	for a := range es {
		for b := 0; b < a; b++ {
			if es[a].claimed == es[b].claimed {
				r = true
			}
		}
	}
	return r
}

// C02(a): VerifyQuorumCert soundness. Block B (view vB) and block B2 (view vB2) are stored; the
// QC names B, B2 or an unknown hash, carries any view label, and m adversarial entries.
func VH_C02_qc(n int, m int, cache int, ed int) {
	w := vhNewWorld(1, n, ed == 1, cache)
	vB := hotstuff.View(nondetU64("vB"))
	vB2 := hotstuff.View(nondetU64("vB2"))
	vassume(vB >= 1 && vB2 >= 1)
	gen := hotstuff.GetGenesis()
	gqc := hotstuff.NewQuorumCert(nil, 0, gen.Hash())
	B := hotstuff.VMakeBlock(hotstuff.VHash(0), gen.Hash(), gqc, &clientpb.Batch{}, vB, 1)
	B2 := hotstuff.VMakeBlock(hotstuff.VHash(1), gen.Hash(), gqc, &clientpb.Batch{}, vB2, 2)
	w.chain.Store(B)
	w.chain.Store(B2)
	label := hotstuff.View(nondetU64("label"))
	// a third, foreign message of the same length: B's bytes with a different view
	B3 := hotstuff.VMakeBlock(hotstuff.VHash(2), gen.Hash(), gqc, &clientpb.Batch{}, vB+1, 1)
	msgs := [][]byte{B.ToBytes(), B2.ToBytes(), B3.ToBytes()}
	es := w.entries(m, len(msgs))
	target := nondetInt("target") // 0: B, 1: B2, 2: unknown hash
	vassume(target >= 0 && target <= 2)
	var h hotstuff.Hash
	var tview hotstuff.View
	switch target {
	case 0:
		h, tview = B.Hash(), vB
	case 1:
		h, tview = B2.Hash(), vB2
	default:
		h = hotstuff.VHash(100)
	}
	qc := hotstuff.NewQuorumCert(w.multi(es, msgs), label, h)
	vclass("repeated-claimed-signer", vhRepeated(es))
	vclass("view-label-differs-from-block-view", target <= 1 && label != tview)
	err := w.auth.VerifyQuorumCert(qc)
	q := hotstuff.QuorumSize(n)
	vobserve("accepted", vhB(err == nil))
	if err == nil {
		vcover("accepted")
		vassert(target <= 1, "accepted-qc-names-a-known-block")
		vassert(w.honest(es, target) >= q, "accepted-qc-has-quorum-of-distinct-valid-signatures")
		vassert(label == tview, "accepted-qc-view-is-the-certified-blocks-view")
	} else if target <= 1 && w.honest(es, target) >= q && !vhRepeated(es) && label == tview && len(es) == w.honest(es, target) {
		// completeness for adversary-free lists is checked in VH_C02_complete
		vassert(false, "honest-quorum-rejected")
	}
	// a second verification (cache warm) gives the same verdict
	err2 := w.auth.VerifyQuorumCert(qc)
	vassert((err2 == nil) == (err == nil), "verdict-stable-on-repeat")
}

func vhB(b bool) uint64 {
	if b {
		return 1
	}
	return 0
}
