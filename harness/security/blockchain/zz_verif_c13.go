package blockchain

import (
	"context"

	"github.com/relab/hotstuff"
	"github.com/relab/hotstuff/core"
	"github.com/relab/hotstuff/core/eventloop"
	"github.com/relab/hotstuff/core/logging"
	"github.com/relab/hotstuff/internal/proto/clientpb"
)

// vhSender answers block requests from a table (the network layer's contract: the block
// returned for hash h has hash h) and records nothing else.
type vhSender struct {
	blocks    []*hotstuff.Block
	fetchable []bool
	requests  int
}

func (s *vhSender) NewView(hotstuff.ID, hotstuff.SyncInfo) error { return nil }
func (s *vhSender) Vote(hotstuff.ID, hotstuff.PartialCert) error { return nil }
func (s *vhSender) Timeout(hotstuff.TimeoutMsg)                  {}
func (s *vhSender) Propose(*hotstuff.ProposeMsg)                 {}
func (s *vhSender) Sub([]hotstuff.ID) (core.Sender, error)       { return s, nil }
func (s *vhSender) RequestBlock(_ context.Context, h hotstuff.Hash) (*hotstuff.Block, bool) {
	s.requests++
	for i, b := range s.blocks {
		if s.fetchable[i] && b.Hash() == h {
			return b, true
		}
	}
	return nil, false
}

type vhForest struct {
	k      int
	blocks []*hotstuff.Block
	parent []int // ghost: index of parent block, -1 genesis, k = unknown hash
	view   []hotstuff.View
	stored []bool
	fetch  []bool
	chain  *Blockchain
	snd    *vhSender
}

// vhBuild builds a forest of k blocks with symbolic views and parent links; views grow along
// parent links (the property's premise). maxView > 0 bounds views (needed where code loops over views).
func vhBuild(k int, maxView int, mask int) *vhForest {
	f := &vhForest{k: k}
	viewPad := make([]hotstuff.View, k+2)
	gen := hotstuff.GetGenesis()
	unknown := hotstuff.VHash(100)
	for i := 0; i < k; i++ {
		p := nondetInt("parent")
		vassume(p >= -1 && p <= k && (p < i || p == k))
		v := hotstuff.View(nondetU64("view"))
		vassume(v >= 1)
		if maxView > 0 {
			vassume(v <= hotstuff.View(maxView))
		}
		cand := make([]hotstuff.Hash, k+2)
		cand[0] = gen.Hash()
		for j := 0; j < i; j++ {
			cand[j+1] = f.blocks[j].Hash()
		}
		cand[k+1] = unknown
		ph := cand[p+1]
		vassume(!(p >= 0 && p < k) || v > viewPad[p+1])
		viewPad[i+1] = v
		b := hotstuff.VMakeBlock(hotstuff.VHash(i), ph, hotstuff.QuorumCert{}, &clientpb.Batch{}, v, 1)
		f.blocks = append(f.blocks, b)
		f.parent = append(f.parent, p)
		f.view = append(f.view, v)
		f.stored = append(f.stored, mask&(1<<uint(i)) != 0)
		f.fetch = append(f.fetch, mask&(1<<uint(k+i)) != 0)
	}
	f.snd = &vhSender{blocks: f.blocks, fetchable: f.fetch}
	el := eventloop.New(logging.VNop(), 10)
	f.chain = New(el, logging.VNop(), f.snd)
	for i, b := range f.blocks {
		if f.stored[i] {
			f.chain.Store(b)
		}
	}
	return f
}

func (f *vhForest) avail(i int) bool { return f.stored[i] || f.fetch[i] }

// onChain reports whether block t (index, -1 = genesis) is b or an ancestor of b reachable
// through available blocks.
func (f *vhForest) onChain(b, t int) bool {
	cur := b
	for steps := 0; steps <= f.k+1; steps++ {
		if cur == t {
			return true
		}
		if cur == -1 || cur == f.k {
			return false
		}
		nxt := f.parent[cur]
		if nxt >= 0 && nxt < f.k && !f.avail(nxt) {
			return false
		}
		cur = nxt
	}
	return false
}

func (f *vhForest) blockAt(i int) *hotstuff.Block {
	if i == -1 {
		return hotstuff.GetGenesis()
	}
	return f.blocks[i]
}

// C13(a): content addressing and idempotent store.
func VH_C13_store_get(k int, mask int) {
	f := vhBuild(k, 0, mask)
	i := nondetInt("query")
	vassume(i >= 0 && i < k)
	h := f.blocks[i].Hash()
	lb, lok := f.chain.LocalGet(h)
	vassert(lok == f.stored[i], "localget-finds-exactly-stored")
	if lok {
		vassert(lb == f.blocks[i], "localget-returns-the-stored-block")
		vassert(lb.Hash() == h, "localget-hash-matches")
	}
	nBlocks, nHeights := len(f.chain.blocks), len(f.chain.blockAtHeight)
	atView := f.chain.blockAtHeight[f.view[i]]
	if f.stored[i] {
		vcover("store-again")
		f.chain.Store(f.blocks[i])
		vassert(len(f.chain.blocks) == nBlocks && len(f.chain.blockAtHeight) == nHeights, "store-again-changes-nothing")
		vassert(f.chain.blocks[h] == f.blocks[i], "store-again-keeps-block")
		vassert(f.chain.blockAtHeight[f.view[i]] == atView, "store-again-keeps-height-index")
	}
	gb, gok := f.chain.Get(h)
	vassert(gok == f.avail(i), "get-finds-stored-or-fetchable")
	if gok {
		vassert(gb.Hash() == h, "get-hash-matches")
		vassert(gb == f.blocks[i], "get-returns-the-block")
		if !f.stored[i] {
			vcover("fetched")
			b2, ok2 := f.chain.LocalGet(h)
			// whether a fetched block is kept is the store's business; if it is, it is kept under its own hash
			vassert(!ok2 || b2.Hash() == h, "fetched-block-is-stored-under-its-hash")
		}
	}
	ub, uok := f.chain.Get(hotstuff.VHash(100))
	vassert(!uok && ub == nil, "get-unknown-hash-not-found")
	vobserve("requests", uint64(f.snd.requests))
}

// C13(b): Extends(b, t) <=> t is b or lies on b's parent chain.
func VH_C13_extends(k int, mask int) {
	f := vhBuild(k, 0, mask)
	b := nondetInt("b")
	t := nondetInt("t")
	vassume(b >= 0 && b < k && t >= -1 && t < k)
	got := f.chain.Extends(f.blockAt(b), f.blockAt(t))
	want := f.onChain(b, t)
	vobserve("got", boolU(got))
	if want {
		vcover("extends-true")
		if b != t && f.parent[b] != t {
			vcover("extends-true-two-hops")
		}
	}
	vassert(got == want, "extends-iff-on-parent-chain")
}

func boolU(b bool) uint64 {
	if b {
		return 1
	}
	return 0
}

// C13(c): pruning after a commit. All blocks stored; commit t1 then t2 (t1 on chain(t2)).
func VH_C13_prune(k int, maxView int) {
	f := vhBuild(k, maxView, 1<<uint(k)-1)
	for i := 0; i < k; i++ {
		vassume(f.parent[i] != k)
	}
	t1 := nondetInt("t1")
	t2 := nondetInt("t2")
	vassume(t1 >= 0 && t1 < k && t2 >= 0 && t2 < k)
	vassume(f.onChain(t2, t1))
	if t1 == t2 {
		vcover("single-commit")
	}
	equiv := false
	for i := 0; i < k; i++ {
		for j := 0; j < i; j++ {
			if f.view[i] == f.view[j] {
				equiv = true
			}
		}
	}
	vclass("two-blocks-in-one-view", equiv)
	if equiv {
		vcover("equivocation")
	}
	forked1 := f.chain.PruneToHeight(f.blocks[t1], f.view[t1])
	for _, fb := range forked1 {
		for i := 0; i < k; i++ {
			if f.blocks[i] == fb {
				vcover("forked-reported")
				vassert(!f.onChain(t1, i), "abandoned-not-on-committed-chain")
			}
		}
	}
	if t1 == t2 {
		return
	}
	vcover("second-commit")
	forked2 := f.chain.PruneToHeight(f.blocks[t2], f.view[t2])
	for _, fb := range forked2 {
		for i := 0; i < k; i++ {
			if f.blocks[i] == fb {
				vassert(!f.onChain(t2, i), "abandoned-not-on-committed-chain")
			}
		}
		for _, fa := range forked1 {
			vassert(fa != fb, "abandoned-reported-at-most-once")
		}
	}
	for a := range forked2 {
		for b := 0; b < a; b++ {
			vassert(forked2[a] != forked2[b], "abandoned-reported-at-most-once")
		}
	}
	vobserve("nforked", uint64(len(forked1)+len(forked2)))
}
