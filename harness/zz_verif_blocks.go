package hotstuff

import "github.com/relab/hotstuff/internal/proto/clientpb"

// VMakeBlock builds a block with a chosen hash (harness support: SHA-256 is bypassed, hashes are
// distinct constants chosen by the harness; nothing in the code under test recomputes them).
func VMakeBlock(hash, parent Hash, cert QuorumCert, batch *clientpb.Batch, view View, proposer ID) *Block {
	return &Block{hash: hash, parent: parent, cert: cert, batch: batch, view: view, proposer: proposer}
}

// VHash returns a distinct non-zero hash constant for index i (i >= 0).
func VHash(i int) Hash {
	var h Hash
	h[0] = 0xB1
	h[1] = byte(i + 1)
	h[31] = 0x5A
	return h
}

// VQuorumRef is the harnesses' own statement of the quorum size, q = ceil((n+f+1)/2) with
// f = floor((n-1)/3), in integer arithmetic - deliberately not the repository's QuorumSize, so
// that ground truths do not move with the code under test.
func VQuorumRef(n int) int {
	f := (n - 1) / 3
	return (n + f + 2) / 2
}
