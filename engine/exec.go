package main

// The SSA interpreter: one instruction at a time over a State; forking via forkReq.

import (
	"fmt"
	"go/constant"
	"go/token"
	"go/types"
	"math"
	"os"
	"strings"
	"sync"

	"golang.org/x/tools/go/ssa"
)

type funcInfo struct {
	fn     *ssa.Function
	regIdx map[ssa.Value]int
	nregs  int
	defs   []regDef // every instruction that defines a register, with its block
}

type regDef struct {
	idx   int
	blk   *ssa.BasicBlock
	isPhi bool
}

var funcInfos sync.Map // *ssa.Function -> *funcInfo

func getFuncInfo(fn *ssa.Function) *funcInfo {
	if fi, ok := funcInfos.Load(fn); ok {
		return fi.(*funcInfo)
	}
	fi := &funcInfo{fn: fn, regIdx: map[ssa.Value]int{}}
	n := 0
	for _, p := range fn.Params {
		fi.regIdx[p] = n
		n++
	}
	for _, p := range fn.FreeVars {
		fi.regIdx[p] = n
		n++
	}
	for _, b := range fn.Blocks {
		for _, in := range b.Instrs {
			if v, ok := in.(ssa.Value); ok {
				fi.regIdx[v] = n
				_, isPhi := in.(*ssa.Phi)
				fi.defs = append(fi.defs, regDef{idx: n, blk: b, isPhi: isPhi})
				n++
			}
		}
	}
	fi.nregs = n
	act, _ := funcInfos.LoadOrStore(fn, fi)
	return act.(*funcInfo)
}

type Engine struct {
	prog                  *ssa.Program
	ts                    *TermStore
	sol                   *Solver
	maxFork               int
	maxUnwind             int
	maxSteps              int
	maxPaths              int
	redirects             map[string]*ssa.Function // real function name -> harness function
	initPkgs              map[string]bool
	pinned                map[string]uint64 // non-nil: nondets are fixed to these values (translator validation)
	res                   *RunResult
	known                 map[string][]string // obligation label -> known-finding classes
	trace                 bool
	fnsSeen               map[string]bool
	modelsUsed            map[string]bool
	harnessPkg            *ssa.Package
	opaqueErrT            types.Type
	curParams             []int
	noIfConv              bool
	specDepth             int
	pinPartial            bool
	ruleTried, ruleProved bool
	ifSites               map[siteKey]*siteStat
}

func (e *Engine) fnName(fn *ssa.Function) string {
	if fn == nil {
		return "<nil>"
	}
	return fn.String()
}

func (e *Engine) pushFrame(st *State, fn *ssa.Function, args []Value, bind []Value) *Frame {
	if len(fn.Blocks) == 0 {
		panic(unsupported("call of function without body: " + fn.String()))
	}
	if len(st.frames) > 200 {
		panic(boundExceeded{"call depth > 200 in " + fn.String()})
	}
	fi := getFuncInfo(fn)
	fr := &Frame{fi: fi, fn: fn, block: fn.Blocks[0], regs: make([]Value, fi.nregs), visits: map[int]int{}}
	if len(args) != len(fn.Params) {
		panic(fmt.Sprintf("engine: call %s with %d args, want %d", fn, len(args), len(fn.Params)))
	}
	copy(fr.regs, args)
	copy(fr.regs[len(fn.Params):], bind)
	st.frames = append(st.frames, fr)
	if e.fnsSeen != nil {
		e.fnsSeen[fn.String()] = true
	}
	return fr
}

func (e *Engine) constValue(c *ssa.Const) Value {
	t := c.Type()
	if c.Value == nil {
		return e.zero(t)
	}
	if tp, ok := t.(*types.TypeParam); ok {
		_ = tp
		panic(unsupported("constant of type parameter type"))
	}
	u := t.Underlying()
	if b, ok := u.(*types.Basic); ok {
		if w, signed, ok := intWidth(b); ok {
			if signed {
				i, _ := constant.Int64Val(constant.ToInt(c.Value))
				return e.ts.BV(uint64(i), w)
			}
			i, _ := constant.Uint64Val(constant.ToInt(c.Value))
			return e.ts.BV(i, w)
		}
		if isBool(b) {
			return e.ts.Bool(constant.BoolVal(c.Value))
		}
		if isFloat(b) {
			f, _ := constant.Float64Val(c.Value)
			return e.ts.FP(f)
		}
		if isString(b) {
			return strConst(e.ts, constant.StringVal(c.Value))
		}
	}
	panic(unsupported("constant of type " + t.String()))
}

func (e *Engine) globalPtr(st *State, g *ssa.Global) PtrV {
	if id, ok := st.globals[g]; ok {
		return PtrV{obj: id}
	}
	et := g.Type().(*types.Pointer).Elem()
	id := st.alloc(e.zero(et), et)
	st.globals[g] = id
	return PtrV{obj: id}
}

func (e *Engine) get(st *State, fr *Frame, v ssa.Value) Value {
	switch x := v.(type) {
	case *ssa.Const:
		return e.constValue(x)
	case *ssa.Global:
		return e.globalPtr(st, x)
	case *ssa.Function:
		return FuncV{fn: x}
	case *ssa.Builtin:
		return FuncV{builtin: x.Name()}
	}
	idx, ok := fr.fi.regIdx[v]
	if !ok {
		panic(fmt.Sprintf("engine: no register for %s (%T) in %s", v.Name(), v, fr.fn))
	}
	r := fr.regs[idx]
	if r == nil {
		panic(fmt.Sprintf("engine: read of unset register %s in %s", v.Name(), fr.fn))
	}
	return r
}

func (e *Engine) set(fr *Frame, v ssa.Value, val Value) {
	fr.regs[fr.fi.regIdx[v]] = val
}

func (e *Engine) jump(st *State, fr *Frame, to *ssa.BasicBlock) {
	fr.prev = fr.block
	fr.block = to
	fr.ip = 0
	fr.visits[to.Index]++
	if fr.visits[to.Index] > e.maxUnwind {
		panic(boundExceeded{fmt.Sprintf("unwinding bound %d exceeded in %s block %d", e.maxUnwind, fr.fn, to.Index)})
	}
	// evaluate phis in parallel
	var vals []Value
	var phis []*ssa.Phi
	for _, in := range to.Instrs {
		phi, ok := in.(*ssa.Phi)
		if !ok {
			break
		}
		pi := -1
		for i, p := range to.Preds {
			if p == fr.prev {
				pi = i
				break
			}
		}
		vals = append(vals, e.get(st, fr, phi.Edges[pi]))
		phis = append(phis, phi)
	}
	for i, phi := range phis {
		e.set(fr, phi, vals[i])
	}
	fr.ip = len(phis)
}

// exec executes the next instruction of the top frame.
func (e *Engine) exec(st *State) {
	fr := st.top()
	if fr.ip >= len(fr.block.Instrs) {
		panic(fmt.Sprintf("engine: fell off block in %s", fr.fn))
	}
	in := fr.block.Instrs[fr.ip]
	st.steps++
	if st.steps > e.maxSteps {
		panic(boundExceeded{fmt.Sprintf("step bound %d exceeded", e.maxSteps)})
	}
	if e.trace {
		fmt.Fprintf(os.Stderr, "  [%d] %s: %s\n", len(st.frames), fr.fn.Name(), in)
	}
	switch x := in.(type) {
	case *ssa.DebugRef:
		fr.ip++
	case *ssa.Alloc:
		et := x.Type().(*types.Pointer).Elem()
		id := st.alloc(e.zero(et), et)
		e.set(fr, x, PtrV{obj: id})
		fr.ip++
	case *ssa.BinOp:
		e.set(fr, x, e.binop(st, x.Op, e.get(st, fr, x.X), e.get(st, fr, x.Y), x.X.Type(), x.Y.Type()))
		fr.ip++
	case *ssa.UnOp:
		e.set(fr, x, e.unop(st, fr, x))
		fr.ip++
	case *ssa.Call:
		e.doCall(st, fr, x, &x.Call)
	case *ssa.ChangeInterface:
		e.set(fr, x, e.get(st, fr, x.X))
		fr.ip++
	case *ssa.ChangeType:
		e.set(fr, x, e.get(st, fr, x.X))
		fr.ip++
	case *ssa.Convert:
		e.set(fr, x, e.convert(st, e.get(st, fr, x.X), x.X.Type(), x.Type()))
		fr.ip++
	case *ssa.MultiConvert:
		e.set(fr, x, e.convert(st, e.get(st, fr, x.X), x.X.Type(), x.Type()))
		fr.ip++
	case *ssa.Extract:
		t := e.get(st, fr, x.Tuple).(TupleV)
		e.set(fr, x, t.e[x.Index])
		fr.ip++
	case *ssa.Field:
		s := e.get(st, fr, x.X).(StructV)
		e.set(fr, x, s.f[x.Field])
		fr.ip++
	case *ssa.FieldAddr:
		p := e.get(st, fr, x.X).(PtrV)
		if p.obj == 0 {
			panic(goPanic{site: "nil pointer dereference"})
		}
		e.set(fr, x, PtrV{obj: p.obj, path: appendPath(p.path, PathEl{idx: x.Field})})
		fr.ip++
	case *ssa.Index:
		e.set(fr, x, e.index(st, fr, x))
		fr.ip++
	case *ssa.IndexAddr:
		e.set(fr, x, e.indexAddr(st, fr, x))
		fr.ip++
	case *ssa.Lookup:
		e.set(fr, x, e.lookup(st, fr, x))
		fr.ip++
	case *ssa.MakeChan:
		n := int(e.concU64(st, e.get(st, fr, x.Size).(*Term)))
		id := st.alloc(ChanObj{cap: n}, x.Type())
		e.set(fr, x, ChanV{obj: id})
		fr.ip++
	case *ssa.MakeClosure:
		fn := x.Fn.(*ssa.Function)
		b := make([]Value, len(x.Bindings))
		for i, bv := range x.Bindings {
			b[i] = e.get(st, fr, bv)
		}
		e.set(fr, x, FuncV{fn: fn, bind: b})
		fr.ip++
	case *ssa.MakeInterface:
		e.set(fr, x, IfaceV{typ: x.X.Type(), v: e.get(st, fr, x.X)})
		fr.ip++
	case *ssa.MakeMap:
		id := st.alloc(MapObj{}, x.Type())
		e.set(fr, x, MapV{obj: id})
		fr.ip++
	case *ssa.MakeSlice:
		ln := int(int64(e.concU64(st, e.get(st, fr, x.Len).(*Term))))
		cp := int(int64(e.concU64(st, e.get(st, fr, x.Cap).(*Term))))
		if ln < 0 || cp < ln {
			panic(goPanic{site: "makeslice: len out of range"})
		}
		if cp > 1<<16 {
			panic(boundExceeded{fmt.Sprintf("make: capacity %d too large", cp)})
		}
		et := x.Type().Underlying().(*types.Slice).Elem()
		s := e.newSlice(st, make([]Value, 0), cp, et)
		// newSlice zero-fills beyond len(elems)=0; set len
		s.len = ln
		e.set(fr, x, s)
		fr.ip++
	case *ssa.MapUpdate:
		m := e.get(st, fr, x.Map).(MapV)
		e.mapUpdate(st, m, e.get(st, fr, x.Key), e.get(st, fr, x.Value))
		fr.ip++
	case *ssa.Next:
		e.set(fr, x, e.next(st, fr, x))
		fr.ip++
	case *ssa.Range:
		e.set(fr, x, e.rangeStart(st, fr, x))
		fr.ip++
	case *ssa.Phi:
		panic("engine: phi executed out of block entry")
	case *ssa.Slice:
		e.set(fr, x, e.slice(st, fr, x))
		fr.ip++
	case *ssa.SliceToArrayPointer:
		s := e.get(st, fr, x.X).(SliceV)
		n := int(x.Type().(*types.Pointer).Elem().Underlying().(*types.Array).Len())
		if s.len < n {
			panic(goPanic{site: "cannot convert slice to array pointer: length too short"})
		}
		if s.obj == 0 {
			e.set(fr, x, PtrV{})
		} else {
			if s.off != 0 {
				panic(unsupported("slice-to-array-pointer with non-zero offset"))
			}
			e.set(fr, x, PtrV{obj: s.obj, path: s.path})
		}
		fr.ip++
	case *ssa.TypeAssert:
		e.set(fr, x, e.typeAssert(st, fr, x))
		fr.ip++
	case *ssa.Store:
		p := e.get(st, fr, x.Addr).(PtrV)
		e.store(st, p, e.get(st, fr, x.Val))
		fr.ip++
	case *ssa.If:
		c := e.get(st, fr, x.Cond).(*Term)
		if _, isKnown := st.known(c); !isKnown && e.tryIfConvert(st, fr, c) {
			return
		}
		if e.concBool(st, c) {
			e.jump(st, fr, fr.block.Succs[0])
		} else {
			e.jump(st, fr, fr.block.Succs[1])
		}
	case *ssa.Jump:
		e.jump(st, fr, fr.block.Succs[0])
	case *ssa.Return:
		var rv Value
		switch len(x.Results) {
		case 0:
			rv = nil
		case 1:
			rv = e.get(st, fr, x.Results[0])
		default:
			el := make([]Value, len(x.Results))
			for i, r := range x.Results {
				el[i] = e.get(st, fr, r)
			}
			rv = TupleV{el}
		}
		e.doReturn(st, rv)
	case *ssa.RunDefers:
		e.runDefers(st, fr)
	case *ssa.Defer:
		d := deferred{}
		if x.Call.IsInvoke() {
			recv := e.get(st, fr, x.Call.Value).(IfaceV)
			if recv.typ == nil {
				panic(goPanic{site: "nil pointer dereference (defer on nil interface)"})
			}
			fn := e.lookupMethod(recv.typ, x.Call.Method)
			d.fn = FuncV{fn: fn}
			d.args = append(d.args, recv.v)
		} else {
			d.fn = e.get(st, fr, x.Call.Value)
		}
		for _, a := range x.Call.Args {
			d.args = append(d.args, e.get(st, fr, a))
		}
		fr.defers = append(fr.defers, d)
		fr.ip++
	case *ssa.Go:
		// executed synchronously at the spawn point (DESIGN §2.4)
		e.modelsUsed["go statement = run synchronously at spawn point"] = true
		e.doCall(st, fr, nil, &x.Call)
	case *ssa.Panic:
		v := e.get(st, fr, x.X)
		panic(goPanic{site: "explicit panic: " + e.describePanicValue(v), value: v})
	case *ssa.Send:
		ch := e.get(st, fr, x.Chan).(ChanV)
		e.chanSend(st, ch, e.get(st, fr, x.X))
		fr.ip++
	case *ssa.Select:
		e.set(fr, x, e.doSelect(st, fr, x))
		fr.ip++
	default:
		panic(unsupported(fmt.Sprintf("instruction %T", in)))
	}
}

func (e *Engine) describePanicValue(v Value) string {
	if iv, ok := v.(IfaceV); ok {
		if s, ok := iv.v.(StringV); ok {
			if cs, ok := concreteString(s); ok {
				return cs
			}
		}
		if iv.typ != nil {
			return iv.typ.String()
		}
	}
	return "value"
}

func (e *Engine) runDefers(st *State, fr *Frame) {
	if len(fr.defers) == 0 {
		fr.ip++
		return
	}
	d := fr.defers[len(fr.defers)-1]
	fr.defers = fr.defers[:len(fr.defers)-1]
	// call d; when it returns, we come back to this RunDefers instruction (ip not advanced)
	e.invokeValue(st, d.fn, d.args, func(st *State, _ Value) {})
}

// invokeValue calls a function value; onRet (if non-nil) receives the result instead of a register.
func (e *Engine) invokeValue(st *State, f Value, args []Value, onRet func(*State, Value)) {
	fv, ok := f.(FuncV)
	if !ok {
		panic(fmt.Sprintf("engine: call of %T", f))
	}
	if fv.fn == nil && fv.builtin == "" {
		panic(goPanic{site: "call of nil function"})
	}
	if fv.builtin == "noop" || fv.builtin == "ctxcancel" {
		if fv.builtin == "ctxcancel" {
			st.heap[fv.bind[0].(PtrV).obj] = ArrayV{[]Value{e.ts.True}}
		}
		if onRet != nil {
			onRet(st, nil)
		}
		return
	}
	if fv.builtin != "" {
		panic(unsupported("deferred/indirect builtin " + fv.builtin))
	}
	if r, handled := e.tryModel(st, fv.fn, args, onRet); handled {
		if _, isPending := r.(pending); isPending {
			panic(unsupported("deferred call of a model that calls back"))
		}
		if onRet != nil {
			onRet(st, r)
		}
		return
	}
	nf := e.pushFrame(st, e.redirect(fv.fn), args, fv.bind)
	nf.onReturn = onRet
}

func (e *Engine) redirect(fn *ssa.Function) *ssa.Function {
	if r, ok := e.redirects[fn.String()]; ok {
		e.modelsUsed["redirect "+fn.String()+" -> "+r.String()] = true
		return r
	}
	return fn
}

func (e *Engine) lookupMethod(t types.Type, m *types.Func) *ssa.Function {
	ms := e.prog.MethodSets.MethodSet(t)
	sel := ms.Lookup(m.Pkg(), m.Name())
	if sel == nil {
		panic(fmt.Sprintf("engine: type %s has no method %s", t, m.Name()))
	}
	fn := e.prog.MethodValue(sel)
	if fn == nil {
		panic(unsupported(fmt.Sprintf("abstract method %s on %s", m.Name(), t)))
	}
	return fn
}

// doCall performs a call instruction. instr may be nil (go statement): result discarded.
func (e *Engine) doCall(st *State, fr *Frame, instr *ssa.Call, c *ssa.CallCommon) {
	var args []Value
	var fn *ssa.Function
	var bind []Value
	if c.IsInvoke() {
		recv, ok := e.get(st, fr, c.Value).(IfaceV)
		if !ok {
			panic(fmt.Sprintf("engine: invoke on %T", e.get(st, fr, c.Value)))
		}
		recv = e.concIface(st, recv)
		if recv.typ == nil {
			panic(goPanic{site: "nil pointer dereference (method call on nil interface " + c.Method.Name() + ")"})
		}
		var iargs []Value
		if recv.typ == shaHasherT || recv.typ == ctxTokT || recv.typ == e.opaqueErrT {
			for _, a := range c.Args {
				iargs = append(iargs, e.get(st, fr, a))
			}
		}
		if r, ok := e.invokeSpecial(st, recv, c.Method.Name(), iargs); ok {
			if instr != nil {
				e.set(fr, instr, r)
			}
			fr.ip++
			return
		}
		fn = e.lookupMethod(recv.typ, c.Method)
		args = append(args, recv.v)
	} else {
		switch f := c.Value.(type) {
		case *ssa.Builtin:
			for _, a := range c.Args {
				args = append(args, e.get(st, fr, a))
			}
			r := e.builtin(st, fr, f.Name(), args, c)
			if instr != nil {
				e.set(fr, instr, r)
			}
			fr.ip++
			return
		case *ssa.Function:
			fn = f
		default:
			fv := e.get(st, fr, c.Value).(FuncV)
			if fv.fn == nil {
				if fv.builtin == "noop" {
					fr.ip++
					return
				}
				if fv.builtin == "ctxcancel" {
					st.heap[fv.bind[0].(PtrV).obj] = ArrayV{[]Value{e.ts.True}}
					fr.ip++
					return
				}
				if fv.builtin != "" {
					panic(unsupported("indirect builtin call"))
				}
				panic(goPanic{site: "call of nil function"})
			}
			fn = fv.fn
			bind = fv.bind
		}
	}
	for _, a := range c.Args {
		args = append(args, e.get(st, fr, a))
	}
	// harness intrinsics
	if r, ok := e.intrinsic(st, fr, fn, args); ok {
		if st.status != "" {
			return
		}
		if st.top() != fr {
			// intrinsic pushed a frame (vpanics): result delivered on return
			return
		}
		if instr != nil && r != nil {
			e.set(fr, instr, r)
		}
		fr.ip++
		return
	}
	if r, handled := e.tryModel(st, fn, args, nil); handled {
		if _, isPending := r.(pending); isPending {
			return // the model pushed a frame whose continuation delivers the result
		}
		if instr != nil && r != nil {
			e.set(fr, instr, r)
		}
		fr.ip++
		return
	}
	fn = e.redirect(fn)
	if fn.Blocks == nil {
		panic(unsupported("call of function without Go body: " + fn.String()))
	}
	e.pushFrame(st, fn, args, bind)
}

// doReturn pops the top frame and delivers rv.
func (e *Engine) doReturn(st *State, rv Value) {
	fr := st.top()
	st.frames = st.frames[:len(st.frames)-1]
	if fr.onReturn != nil {
		fr.onReturn(st, rv)
		return
	}
	if len(st.frames) == 0 {
		st.status = "done"
		return
	}
	caller := st.top()
	in := caller.block.Instrs[caller.ip]
	switch ci := in.(type) {
	case *ssa.Call:
		if rv != nil {
			e.set(caller, ci, rv)
		} else if ci.Type() != nil {
			if tup, ok := ci.Type().(*types.Tuple); ok && tup.Len() == 0 {
				// no result
			}
		}
		caller.ip++
	case *ssa.Go:
		caller.ip++
	case *ssa.RunDefers:
		// stay on RunDefers to run the next deferred call
	case *ssa.Defer:
		caller.ip++
	default:
		panic(fmt.Sprintf("engine: return to non-call instruction %T", in))
	}
}

// ---------- operators ----------

func (e *Engine) binop(st *State, op token.Token, a, b Value, ta, tb types.Type) Value {
	// operands whose value is already fixed on this path (by an earlier concretisation) are
	// used as constants: the path condition contains term == value, so this is sound, and it keeps
	// e.g. a division by a non-power-of-two out of every later query.
	if t, ok := a.(*Term); ok && t.op != OpConst && os.Getenv("VERIF_NO_BINDSUBST") == "" {
		if v, known := st.bind[t.id]; known {
			a = e.ts.constOf(t.w, v)
		}
	}
	if t, ok := b.(*Term); ok && t.op != OpConst && os.Getenv("VERIF_NO_BINDSUBST") == "" {
		if v, known := st.bind[t.id]; known {
			b = e.ts.constOf(t.w, v)
		}
	}
	switch op {
	case token.EQL:
		return e.eqValue(a, b)
	case token.NEQ:
		return e.ts.Not(e.eqValue(a, b))
	}
	if sa, ok := a.(StringV); ok {
		sb := b.(StringV)
		switch op {
		case token.ADD:
			if sa.opaque || sb.opaque {
				return StringV{opaque: true}
			}
			return StringV{b: append(append([]*Term(nil), sa.b...), sb.b...)}
		case token.LSS, token.LEQ, token.GTR, token.GEQ:
			x, ok1 := concreteString(sa)
			y, ok2 := concreteString(sb)
			if !ok1 || !ok2 {
				panic(unsupported("ordering comparison of symbolic strings"))
			}
			switch op {
			case token.LSS:
				return e.ts.Bool(x < y)
			case token.LEQ:
				return e.ts.Bool(x <= y)
			case token.GTR:
				return e.ts.Bool(x > y)
			default:
				return e.ts.Bool(x >= y)
			}
		}
		panic(unsupported("string operator " + op.String()))
	}
	x, ok1 := a.(*Term)
	y, ok2 := b.(*Term)
	if !ok1 || !ok2 {
		panic(unsupported(fmt.Sprintf("binop %s on %T,%T", op, a, b)))
	}
	if x.w == SortBool {
		switch op {
		case token.AND, token.LAND:
			return e.ts.And(x, y)
		case token.OR, token.LOR:
			return e.ts.Or(x, y)
		}
		panic(unsupported("bool binop " + op.String()))
	}
	if x.w == SortFP {
		switch op {
		case token.ADD:
			return e.ts.Bin(OpFAdd, x, y)
		case token.SUB:
			return e.ts.Bin(OpFSub, x, y)
		case token.MUL:
			return e.ts.Bin(OpFMul, x, y)
		case token.QUO:
			return e.ts.Bin(OpFDiv, x, y)
		case token.LSS:
			return e.ts.Bin(OpFLt, x, y)
		case token.LEQ:
			return e.ts.Bin(OpFLe, x, y)
		case token.GTR:
			return e.ts.Bin(OpFLt, y, x)
		case token.GEQ:
			return e.ts.Bin(OpFLe, y, x)
		}
		panic(unsupported("float binop " + op.String()))
	}
	_, signed, _ := intWidth(ta)
	switch op {
	case token.ADD:
		return e.ts.Bin(OpAdd, x, y)
	case token.SUB:
		return e.ts.Bin(OpSub, x, y)
	case token.MUL:
		return e.ts.Bin(OpMul, x, y)
	case token.QUO, token.REM:
		nz := e.ts.Not(e.ts.Eq(y, e.ts.BV(0, y.w)))
		if !e.concBool(st, nz) {
			panic(goPanic{site: "integer divide by zero"})
		}
		if op == token.QUO {
			if signed {
				return e.ts.Bin(OpSDiv, x, y)
			}
			return e.ts.Bin(OpUDiv, x, y)
		}
		if signed {
			return e.ts.Bin(OpSRem, x, y)
		}
		return e.ts.Bin(OpURem, x, y)
	case token.AND:
		return e.ts.Bin(OpAnd, x, y)
	case token.OR:
		return e.ts.Bin(OpOr, x, y)
	case token.XOR:
		return e.ts.Bin(OpXor, x, y)
	case token.AND_NOT:
		return e.ts.Bin(OpAnd, x, e.ts.Not(y))
	case token.SHL, token.SHR:
		_, ysigned, _ := intWidth(tb)
		if ysigned {
			neg := e.ts.Bin(OpSLt, y, e.ts.BV(0, y.w))
			if e.concBool(st, neg) {
				panic(goPanic{site: "negative shift amount"})
			}
		}
		// bring the count to x's width, saturating
		var cnt *Term
		if y.w > x.w {
			big := e.ts.Bin(OpULe, e.ts.BV(uint64(x.w), y.w), y)
			cnt = e.ts.Ite(big, e.ts.BV(uint64(x.w), x.w), e.ts.Extract(y, x.w-1, 0))
		} else {
			cnt = e.ts.ZExt(y, x.w)
		}
		if op == token.SHL {
			return e.ts.Bin(OpShl, x, cnt)
		}
		if signed {
			return e.ts.Bin(OpAShr, x, cnt)
		}
		return e.ts.Bin(OpLShr, x, cnt)
	case token.LSS:
		if signed {
			return e.ts.Bin(OpSLt, x, y)
		}
		return e.ts.Bin(OpULt, x, y)
	case token.LEQ:
		if signed {
			return e.ts.Bin(OpSLe, x, y)
		}
		return e.ts.Bin(OpULe, x, y)
	case token.GTR:
		if signed {
			return e.ts.Bin(OpSLt, y, x)
		}
		return e.ts.Bin(OpULt, y, x)
	case token.GEQ:
		if signed {
			return e.ts.Bin(OpSLe, y, x)
		}
		return e.ts.Bin(OpULe, y, x)
	}
	panic(unsupported("binop " + op.String()))
}

func (e *Engine) unop(st *State, fr *Frame, x *ssa.UnOp) Value {
	v := e.get(st, fr, x.X)
	switch x.Op {
	case token.MUL: // load
		p, ok := v.(PtrV)
		if !ok {
			panic(fmt.Sprintf("engine: load through %T", v))
		}
		return e.load(st, p)
	case token.NOT:
		return e.ts.Not(v.(*Term))
	case token.SUB:
		t := v.(*Term)
		if t.w == SortFP {
			return e.ts.app(OpFNeg, SortFP, 0, 0, t)
		}
		return e.ts.app(OpNeg, t.w, 0, 0, t)
	case token.XOR:
		t := v.(*Term)
		return e.ts.Not(t)
	case token.ARROW:
		ch := v.(ChanV)
		val, ok := e.chanRecv(st, ch, x.Type(), x.CommaOk)
		if x.CommaOk {
			return TupleV{[]Value{val, e.ts.Bool(ok)}}
		}
		return val
	}
	panic(unsupported("unop " + x.Op.String()))
}

func (e *Engine) convert(st *State, v Value, from, to types.Type) Value {
	fu, tu := from.Underlying(), to.Underlying()
	if t, ok := v.(*Term); ok {
		if tw, _, ok := intWidth(tu); ok {
			if t.w == SortFP {
				_, tsigned, _ := intWidth(tu)
				if tsigned {
					if r := e.ceilHalfRule(st, t, tw); r != nil {
						return r
					}
					return e.ts.app(OpFToS, tw, 0, 0, t)
				}
				return e.ts.app(OpFToU, tw, 0, 0, t)
			}
			_, fsigned, _ := intWidth(fu)
			if tw <= t.w {
				return e.ts.ZExt(t, tw) // truncation
			}
			if fsigned {
				return e.ts.SExt(t, tw)
			}
			return e.ts.ZExt(t, tw)
		}
		if isFloat(tu) {
			if t.w == SortFP {
				return t
			}
			_, fsigned, _ := intWidth(fu)
			if fsigned {
				return e.ts.app(OpFFromS, SortFP, 0, 0, t)
			}
			return e.ts.app(OpFFromU, SortFP, 0, 0, t)
		}
		if isString(tu) {
			// string(rune)
			if c, ok := st.known(t); ok && c < 0x80 {
				return strConst(e.ts, string(rune(c)))
			}
			panic(unsupported("string(rune) of symbolic or non-ASCII value"))
		}
		if isBool(tu) {
			return t
		}
	}
	if s, ok := v.(StringV); ok {
		if sl, ok := tu.(*types.Slice); ok {
			if s.opaque {
				panic(unsupported("[]byte of unmodelled string"))
			}
			if w, _, ok := intWidth(sl.Elem()); ok && w == 8 {
				el := make([]Value, len(s.b))
				for i, b := range s.b {
					el[i] = b
				}
				return e.newSlice(st, el, len(el), sl.Elem())
			}
			panic(unsupported("string to []rune"))
		}
		if isString(tu) {
			return s
		}
	}
	if s, ok := v.(SliceV); ok {
		if isString(tu) {
			el := e.sliceElems(st, s)
			b := make([]*Term, len(el))
			for i, x := range el {
				b[i] = x.(*Term)
			}
			return StringV{b: b}
		}
		if _, ok := tu.(*types.Slice); ok {
			return s
		}
	}
	if p, ok := v.(PtrV); ok {
		if _, ok := tu.(*types.Pointer); ok {
			return p
		}
		if b, ok := tu.(*types.Basic); ok && b.Kind() == types.UnsafePointer {
			return p
		}
	}
	if types.Identical(fu, tu) {
		return v
	}
	panic(unsupported(fmt.Sprintf("conversion %s -> %s", from, to)))
}

func (e *Engine) checkIndex(st *State, idx *Term, n int, what string) {
	inb := e.ts.Bin(OpULt, idx, e.ts.BV(uint64(n), 64))
	if !e.concBool(st, inb) {
		panic(goPanic{site: "index out of range (" + what + ")"})
	}
}

func to64(ts *TermStore, t *Term, signed bool) *Term {
	if t.w == 64 {
		return t
	}
	if signed {
		return ts.SExt(t, 64)
	}
	return ts.ZExt(t, 64)
}

func (e *Engine) idx64(st *State, fr *Frame, v ssa.Value) *Term {
	t := e.get(st, fr, v).(*Term)
	_, signed, _ := intWidth(v.Type())
	return to64(e.ts, t, signed)
}

func (e *Engine) indexAddr(st *State, fr *Frame, x *ssa.IndexAddr) Value {
	base := e.get(st, fr, x.X)
	idx := e.idx64(st, fr, x.Index)
	mk := func(k *Term) PathEl {
		if c, ok := st.known(k); ok {
			return PathEl{idx: int(c)}
		}
		return PathEl{sym: k}
	}
	switch b := base.(type) {
	case SliceV:
		e.checkIndex(st, idx, b.len, "slice")
		if b.off != 0 {
			idx = e.ts.Bin(OpAdd, idx, e.ts.BV(uint64(b.off), 64))
			if c, ok := st.known(e.get(st, fr, x.Index).(*Term)); ok {
				_ = c
			}
		}
		if c, ok := st.known(idx); ok {
			return PtrV{obj: b.obj, path: appendPath(b.path, PathEl{idx: int(c)})}
		}
		// a bound raw index makes the shifted index concrete as well
		raw := e.idx64(st, fr, x.Index)
		if c, ok := st.known(raw); ok {
			return PtrV{obj: b.obj, path: appendPath(b.path, PathEl{idx: int(c) + b.off})}
		}
		return PtrV{obj: b.obj, path: appendPath(b.path, mk(idx))}
	case PtrV:
		if b.obj == 0 {
			panic(goPanic{site: "nil pointer dereference"})
		}
		n := int(x.X.Type().Underlying().(*types.Pointer).Elem().Underlying().(*types.Array).Len())
		e.checkIndex(st, idx, n, "array")
		return PtrV{obj: b.obj, path: appendPath(b.path, mk(idx))}
	}
	panic(fmt.Sprintf("engine: IndexAddr on %T", base))
}

func (e *Engine) index(st *State, fr *Frame, x *ssa.Index) Value {
	base := e.get(st, fr, x.X)
	idx := e.idx64(st, fr, x.Index)
	switch b := base.(type) {
	case ArrayV:
		e.checkIndex(st, idx, len(b.e), "array")
		if c, ok := st.known(idx); ok {
			return b.e[int(c)]
		}
		return e.pathGet(st, b, []PathEl{{sym: idx}})
	case StringV:
		if b.opaque {
			panic(unsupported("index of unmodelled string"))
		}
		e.checkIndex(st, idx, len(b.b), "string")
		k := int(e.concU64(st, idx))
		return b.b[k]
	}
	panic(fmt.Sprintf("engine: Index on %T", base))
}

func (e *Engine) slice(st *State, fr *Frame, x *ssa.Slice) Value {
	base := e.get(st, fr, x.X)
	conc := func(v ssa.Value, def int) int {
		if v == nil {
			return def
		}
		return int(int64(e.concU64(st, e.idx64(st, fr, v))))
	}
	switch b := base.(type) {
	case StringV:
		if b.opaque {
			panic(unsupported("slice of unmodelled string"))
		}
		lo := conc(x.Low, 0)
		hi := conc(x.High, len(b.b))
		if lo < 0 || hi < lo || hi > len(b.b) {
			panic(goPanic{site: "slice bounds out of range (string)"})
		}
		return StringV{b: b.b[lo:hi]}
	case SliceV:
		lo := conc(x.Low, 0)
		hi := conc(x.High, b.len)
		mx := conc(x.Max, b.cap)
		if lo < 0 || hi < lo || mx < hi || mx > b.cap {
			panic(goPanic{site: "slice bounds out of range"})
		}
		if b.obj == 0 {
			return SliceV{}
		}
		return SliceV{obj: b.obj, path: b.path, off: b.off + lo, len: hi - lo, cap: mx - lo}
	case PtrV:
		if b.obj == 0 {
			panic(goPanic{site: "nil pointer dereference (slice of nil array pointer)"})
		}
		n := int(x.X.Type().Underlying().(*types.Pointer).Elem().Underlying().(*types.Array).Len())
		lo := conc(x.Low, 0)
		hi := conc(x.High, n)
		mx := conc(x.Max, n)
		if lo < 0 || hi < lo || mx < hi || mx > n {
			panic(goPanic{site: "slice bounds out of range (array)"})
		}
		return SliceV{obj: b.obj, path: b.path, off: lo, len: hi - lo, cap: mx - lo}
	}
	panic(fmt.Sprintf("engine: Slice on %T", base))
}

func implementsIface(t types.Type, it *types.Interface) bool {
	return types.Implements(t, it)
}

func (e *Engine) typeAssert(st *State, fr *Frame, x *ssa.TypeAssert) Value {
	iv, ok := e.get(st, fr, x.X).(IfaceV)
	if !ok {
		panic(fmt.Sprintf("engine: TypeAssert on %T", e.get(st, fr, x.X)))
	}
	iv = e.concIface(st, iv)
	var okk bool
	var res Value
	if it, isIface := x.AssertedType.Underlying().(*types.Interface); isIface {
		okk = iv.typ != nil && (implementsIface(iv.typ, it) || (iv.typ == e.opaqueErrT && it.NumMethods() == 1 && it.Method(0).Name() == "Error"))
		if okk {
			res = iv
		} else {
			res = IfaceV{}
		}
	} else {
		okk = iv.typ != nil && types.Identical(iv.typ, x.AssertedType)
		if okk {
			res = iv.v
		} else {
			res = e.zero(x.AssertedType)
		}
	}
	if x.CommaOk {
		return TupleV{[]Value{res, e.ts.Bool(okk)}}
	}
	if !okk {
		d := "nil"
		if iv.typ != nil {
			d = iv.typ.String()
		}
		panic(goPanic{site: fmt.Sprintf("interface conversion: %s is not %s", d, x.AssertedType)})
	}
	return res
}

// ---------- maps ----------

// mapFind locates key in the map object; returns the entry index or -1. Forks when the answer
// depends on symbolic values.
func (e *Engine) mapFind(st *State, mo MapObj, key Value) int {
	eqs := make([]*Term, len(mo.keys))
	undecided := false
	for i, k := range mo.keys {
		eqs[i] = e.eqValue(key, k)
		if v, ok := st.known(eqs[i]); ok {
			if v != 0 {
				return i
			}
		} else {
			undecided = true
		}
	}
	if !undecided {
		return -1
	}
	var alts []forkAlt
	// alternative i: equals entry i (and no other); alternative "absent"
	var noneConds []*Term
	noneBinds := map[int]uint64{}
	for i := range mo.keys {
		if _, ok := st.known(eqs[i]); ok {
			continue
		}
		conds := []*Term{eqs[i]}
		binds := map[int]uint64{eqs[i].id: 1}
		for j := range mo.keys {
			if j == i {
				continue
			}
			if _, ok := st.known(eqs[j]); ok {
				continue
			}
			conds = append(conds, e.ts.Not(eqs[j]))
			binds[eqs[j].id] = 0
		}
		alts = append(alts, forkAlt{conds, binds})
		noneConds = append(noneConds, e.ts.Not(eqs[i]))
		noneBinds[eqs[i].id] = 0
	}
	alts = append(alts, forkAlt{noneConds, noneBinds})
	panic(forkReq{alts})
}

func (e *Engine) mapObj(st *State, m MapV) MapObj {
	if m.obj == 0 {
		return MapObj{}
	}
	return st.heap[m.obj].(MapObj)
}

func (e *Engine) mapUpdate(st *State, m MapV, k, v Value) {
	if m.obj == 0 {
		panic(goPanic{site: "assignment to entry in nil map"})
	}
	mo := e.mapObj(st, m)
	i := e.mapFind(st, mo, k)
	n := MapObj{keys: append([]Value(nil), mo.keys...), vals: append([]Value(nil), mo.vals...)}
	if i >= 0 {
		n.vals[i] = v
	} else {
		n.keys = append(n.keys, k)
		n.vals = append(n.vals, v)
	}
	st.heap[m.obj] = n
}

func (e *Engine) mapDelete(st *State, m MapV, k Value) {
	if m.obj == 0 {
		return
	}
	mo := e.mapObj(st, m)
	i := e.mapFind(st, mo, k)
	if i < 0 {
		return
	}
	n := MapObj{}
	for j := range mo.keys {
		if j != i {
			n.keys = append(n.keys, mo.keys[j])
			n.vals = append(n.vals, mo.vals[j])
		}
	}
	st.heap[m.obj] = n
}

func (e *Engine) lookup(st *State, fr *Frame, x *ssa.Lookup) Value {
	base := e.get(st, fr, x.X)
	if s, ok := base.(StringV); ok {
		idx := e.idx64(st, fr, x.Index)
		if s.opaque {
			panic(unsupported("index of unmodelled string"))
		}
		e.checkIndex(st, idx, len(s.b), "string")
		return s.b[int(e.concU64(st, idx))]
	}
	m := base.(MapV)
	mt := x.X.Type().Underlying().(*types.Map)
	key := e.get(st, fr, x.Index)
	mo := e.mapObj(st, m)
	i := e.mapFind(st, mo, key)
	var v Value
	if i >= 0 {
		v = mo.vals[i]
	} else {
		v = e.zero(mt.Elem())
	}
	if x.CommaOk {
		return TupleV{[]Value{v, e.ts.Bool(i >= 0)}}
	}
	return v
}

func (e *Engine) rangeStart(st *State, fr *Frame, x *ssa.Range) Value {
	base := e.get(st, fr, x.X)
	switch b := base.(type) {
	case MapV:
		mo := e.mapObj(st, b)
		it := IterObj{mapObj: b.obj, keys: append([]Value(nil), mo.keys...)}
		return IterV{obj: st.alloc(it, nil)}
	case StringV:
		if b.opaque {
			panic(unsupported("range over unmodelled string"))
		}
		s := b
		return IterV{obj: st.alloc(IterObj{str: &s}, nil)}
	}
	panic(fmt.Sprintf("engine: Range on %T", base))
}

func (e *Engine) next(st *State, fr *Frame, x *ssa.Next) Value {
	itv := e.get(st, fr, x.Iter).(IterV)
	it := st.heap[itv.obj].(IterObj)
	tup := x.Type().(*types.Tuple)
	if x.IsString {
		if it.pos >= len(it.str.b) {
			return TupleV{[]Value{e.ts.False, e.ts.BV(0, 64), e.ts.BV(0, 32)}}
		}
		c := it.str.b[it.pos]
		cv, ok := st.known(c)
		if !ok || cv >= 0x80 {
			panic(unsupported("range over string with symbolic or non-ASCII bytes"))
		}
		r := TupleV{[]Value{e.ts.True, e.ts.BV(uint64(it.pos), 64), e.ts.BV(cv, 32)}}
		it.pos++
		st.heap[itv.obj] = it
		return r
	}
	for it.pos < len(it.keys) {
		k := it.keys[it.pos]
		mo := e.mapObj(st, MapV{obj: it.mapObj})
		i := e.mapFind(st, mo, k) // may fork; iterator not yet advanced, so re-execution is safe
		it.pos++
		if i < 0 {
			continue // deleted during iteration
		}
		st.heap[itv.obj] = it
		return TupleV{[]Value{e.ts.True, k, mo.vals[i]}}
	}
	st.heap[itv.obj] = it
	return TupleV{[]Value{e.ts.False, e.zeroOrDummy(tup.At(1).Type()), e.zeroOrDummy(tup.At(2).Type())}}
}

// ---------- channels ----------

func (e *Engine) chanSend(st *State, ch ChanV, v Value) {
	if ch.obj == 0 {
		panic(blockedErr{"send on nil channel"})
	}
	co := st.heap[ch.obj].(ChanObj)
	if co.closed {
		panic(goPanic{site: "send on closed channel"})
	}
	if len(co.buf) >= co.cap {
		panic(blockedErr{"send on full/unbuffered channel with no receiver"})
	}
	co.buf = append(append([]Value(nil), co.buf...), v)
	st.heap[ch.obj] = co
}

func (e *Engine) chanRecv(st *State, ch ChanV, t types.Type, commaOk bool) (Value, bool) {
	if ch.obj == 0 {
		panic(blockedErr{"receive from nil channel"})
	}
	co := st.heap[ch.obj].(ChanObj)
	if len(co.buf) == 0 {
		if co.closed {
			et := st.htype[ch.obj].Underlying().(*types.Chan).Elem()
			return e.zero(et), false
		}
		panic(blockedErr{"receive from empty channel"})
	}
	v := co.buf[0]
	co.buf = append([]Value(nil), co.buf[1:]...)
	st.heap[ch.obj] = co
	return v, true
}

type blockedErr struct{ msg string }

func (e *Engine) doSelect(st *State, fr *Frame, x *ssa.Select) Value {
	// result tuple: (index int, recvOk bool, r_0 T_0, ... r_n-1 T_n-1) for receive cases
	nrecv := 0
	for _, s := range x.States {
		if s.Dir == types.RecvOnly {
			nrecv++
		}
	}
	mkres := func(idx int, ok bool, which int, val Value) Value {
		el := []Value{e.ts.BV(uint64(int64(idx)), 64), e.ts.Bool(ok)}
		k := 0
		for i, s := range x.States {
			if s.Dir == types.RecvOnly {
				et := s.Chan.Type().Underlying().(*types.Chan).Elem()
				if i == which && val != nil {
					el = append(el, val)
				} else {
					el = append(el, e.zero(et))
				}
				k++
			}
		}
		return TupleV{el}
	}
	for i, s := range x.States {
		ch := e.get(st, fr, s.Chan).(ChanV)
		if ch.obj == 0 {
			continue
		}
		co := st.heap[ch.obj].(ChanObj)
		if s.Dir == types.SendOnly {
			if co.closed {
				panic(goPanic{site: "send on closed channel"})
			}
			if len(co.buf) < co.cap {
				e.chanSend(st, ch, e.get(st, fr, s.Send))
				return mkres(i, false, -1, nil)
			}
		} else {
			if len(co.buf) > 0 || co.closed {
				v, ok := e.chanRecv(st, ch, nil, true)
				return mkres(i, ok, i, v)
			}
		}
	}
	if !x.Blocking {
		return mkres(-1, false, -1, nil)
	}
	panic(blockedErr{"select with no ready case"})
}

// ---------- builtins ----------

func (e *Engine) builtin(st *State, fr *Frame, name string, args []Value, c *ssa.CallCommon) Value {
	switch name {
	case "len":
		switch a := args[0].(type) {
		case SliceV:
			return e.ts.BV(uint64(a.len), 64)
		case StringV:
			if a.opaque {
				panic(unsupported("len of unmodelled string"))
			}
			return e.ts.BV(uint64(len(a.b)), 64)
		case MapV:
			return e.ts.BV(uint64(len(e.mapObj(st, a).keys)), 64)
		case ChanV:
			if a.obj == 0 {
				return e.ts.BV(0, 64)
			}
			return e.ts.BV(uint64(len(st.heap[a.obj].(ChanObj).buf)), 64)
		case ArrayV:
			return e.ts.BV(uint64(len(a.e)), 64)
		case PtrV:
			n := c.Args[0].Type().Underlying().(*types.Pointer).Elem().Underlying().(*types.Array).Len()
			return e.ts.BV(uint64(n), 64)
		}
	case "cap":
		switch a := args[0].(type) {
		case SliceV:
			return e.ts.BV(uint64(a.cap), 64)
		case ChanV:
			if a.obj == 0 {
				return e.ts.BV(0, 64)
			}
			return e.ts.BV(uint64(st.heap[a.obj].(ChanObj).cap), 64)
		case ArrayV:
			return e.ts.BV(uint64(len(a.e)), 64)
		}
	case "append":
		s := args[0].(SliceV)
		et := c.Args[0].Type().Underlying().(*types.Slice).Elem()
		var add []Value
		switch a := args[1].(type) {
		case SliceV:
			add = e.sliceElems(st, a)
		case StringV:
			for _, b := range a.b {
				add = append(add, b)
			}
		}
		if len(add) == 0 {
			return s
		}
		return e.appendElems(st, s, add, et)
	case "copy":
		dst := args[0].(SliceV)
		var src []Value
		switch a := args[1].(type) {
		case SliceV:
			src = e.sliceElems(st, a)
		case StringV:
			for _, b := range a.b {
				src = append(src, b)
			}
		}
		n := dst.len
		if len(src) < n {
			n = len(src)
		}
		src = append([]Value(nil), src[:n]...) // snapshot: handles overlap
		for i := 0; i < n; i++ {
			e.setSliceElem(st, dst, i, src[i])
		}
		return e.ts.BV(uint64(n), 64)
	case "delete":
		e.mapDelete(st, args[0].(MapV), args[1])
		return nil
	case "clear":
		switch a := args[0].(type) {
		case MapV:
			if a.obj != 0 {
				st.heap[a.obj] = MapObj{}
			}
		case SliceV:
			et := c.Args[0].Type().Underlying().(*types.Slice).Elem()
			z := e.zero(et)
			for i := 0; i < a.len; i++ {
				e.setSliceElem(st, a, i, z)
			}
		}
		return nil
	case "close":
		ch := args[0].(ChanV)
		if ch.obj == 0 {
			panic(goPanic{site: "close of nil channel"})
		}
		co := st.heap[ch.obj].(ChanObj)
		if co.closed {
			panic(goPanic{site: "close of closed channel"})
		}
		co.closed = true
		st.heap[ch.obj] = co
		return nil
	case "min", "max":
		acc := args[0].(*Term)
		_, signed, _ := intWidth(c.Args[0].Type())
		for _, a := range args[1:] {
			b := a.(*Term)
			var lt *Term
			if acc.w == SortFP {
				lt = e.ts.Bin(OpFLt, acc, b)
			} else if signed {
				lt = e.ts.Bin(OpSLt, acc, b)
			} else {
				lt = e.ts.Bin(OpULt, acc, b)
			}
			if name == "min" {
				acc = e.ts.Ite(lt, acc, b)
			} else {
				acc = e.ts.Ite(lt, b, acc)
			}
		}
		return acc
	case "print", "println":
		return nil
	case "recover":
		return IfaceV{}
	case "ssa:wrapnilchk":
		p := args[0].(PtrV)
		if p.obj == 0 {
			panic(goPanic{site: "value method called using nil pointer"})
		}
		return p
	}
	panic(unsupported("builtin " + name))
}

func (e *Engine) appendElems(st *State, s SliceV, add []Value, et types.Type) SliceV {
	need := s.len + len(add)
	if s.obj != 0 && need <= s.cap {
		ns := SliceV{obj: s.obj, path: s.path, off: s.off, len: need, cap: s.cap}
		for i, v := range add {
			e.setSliceElem(st, ns, s.len+i, v)
		}
		return ns
	}
	ncap := 2 * s.cap
	if ncap < need {
		ncap = need
	}
	e.modelsUsed["append grows to max(2*cap, needed) (no size-class rounding)"] = true
	old := e.sliceElems(st, s)
	all := append(append([]Value(nil), old...), add...)
	return e.newSlice(st, all, ncap, et)
}

var _ = math.MaxInt
var _ = strings.Contains

// zeroOrDummy: go/ssa gives unused range variables the invalid type.
func (e *Engine) zeroOrDummy(t types.Type) Value {
	if b, ok := t.(*types.Basic); ok && b.Kind() == types.Invalid {
		return e.ts.False
	}
	return e.zero(t)
}

// ceilHalfRule is a verified rewrite rule (DESIGN §2.5): int(math.Ceil(float64(x)/2.0)) equals
// (x+1)>>1 for 0 <= x <= 2^52. The rule itself is proved by a solver query the first time it is
// needed (generated from the same term constructors, so it cannot drift from the encoding); it
// is applied only when the term built from the repository's SSA matches the left-hand side
// syntactically and the side condition is implied by the current path condition.
func (e *Engine) ceilHalfRule(st *State, t *Term, tw int) *Term {
	if tw != 64 || t.op != OpFCeil {
		return nil
	}
	d := t.args[0]
	if d.op != OpFDiv || d.args[0].op != OpFFromS || !d.args[1].IsConst() || d.args[1].cval != 0x4000000000000000 { // 2.0
		return nil
	}
	x := d.args[0].args[0]
	if x.w != 64 {
		return nil
	}
	ts := e.ts
	if !e.ruleTried {
		e.ruleTried = true
		v := ts.Var("rule!x", 64)
		lhs := ts.app(OpFToS, 64, 0, 0, ts.app(OpFCeil, SortFP, 0, 0, ts.Bin(OpFDiv, ts.app(OpFFromS, SortFP, 0, 0, v), ts.FP(2.0))))
		rhs := ts.Bin(OpAShr, ts.Bin(OpAdd, v, ts.BV(1, 64)), ts.BV(1, 64))
		rng := ts.And(ts.Bin(OpSLe, ts.BV(0, 64), v), ts.Bin(OpSLe, v, ts.BV(1<<52, 64)))
		res, _ := e.sol.Check([]*Term{rng, ts.Not(ts.Eq(lhs, rhs))}, false)
		e.ruleProved = res == Unsat
		if e.ruleProved {
			e.modelsUsed["verified rewrite rule: int(Ceil(float64(x)/2)) = (x+1)>>1 for 0<=x<=2^52 (proved by the solver at start-up)"] = true
		}
	}
	if !e.ruleProved {
		return nil
	}
	side := ts.And(ts.Bin(OpSLe, ts.BV(0, 64), x), ts.Bin(OpSLe, x, ts.BV(1<<52, 64)))
	if ok, _ := e.probe(st, ts.Not(side)); ok {
		return nil // side condition not implied by the path condition: keep the FP term
	}
	e.res.PathStatus["rewrite-rule-applied"]++
	return ts.Bin(OpAShr, ts.Bin(OpAdd, x, ts.BV(1, 64)), ts.BV(1, 64))
}
