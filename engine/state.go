package main

import (
	"fmt"
	"go/types"
	"sort"

	"golang.org/x/tools/go/ssa"
)

type deferred struct {
	fn   Value // FuncV
	args []Value
	// for invoke-mode defers
	invoke *ssa.CallCommon
}

type Frame struct {
	fi            *funcInfo
	fn            *ssa.Function
	block         *ssa.BasicBlock
	prev          *ssa.BasicBlock
	ip            int
	regs          []Value
	defers        []deferred
	visits        map[int]int                    // loop unwinding: block index -> visits
	catch         string                         // non-empty: this frame catches Go panics ("vpanics") or blocking
	onReturn      func(st *State, results Value) // optional continuation for model-initiated calls
	runningDefers bool
	retVal        Value
	panicking     *goPanic
}

type obsRec struct {
	label string
	val   *Term
}

type failRec struct {
	label string
	kind  string // "assert" | "panic"
}

type State struct {
	heap    map[int]Value
	htype   map[int]types.Type
	nextObj int
	frames  []*Frame
	pc      []*Term
	model   map[string]uint64
	bind    map[int]uint64
	globals map[*ssa.Global]int
	nondetN map[string]int
	obs     []obsRec
	classes map[string]*Term
	covers  map[string]bool
	failed  []failRec // obligations that failed along this path
	steps   int
	status  string // "" running; "done", "panic:<site>", "assume-false", "unsupported:<msg>", "blocked", "unwind"
	inited  map[*ssa.Package]bool
	ghost   map[string]Value
}

func newState() *State {
	return &State{heap: map[int]Value{}, htype: map[int]types.Type{}, nextObj: 1, bind: map[int]uint64{}, globals: map[*ssa.Global]int{},
		nondetN: map[string]int{}, classes: map[string]*Term{}, covers: map[string]bool{}, model: map[string]uint64{}, inited: map[*ssa.Package]bool{}, ghost: map[string]Value{}}
}

func (st *State) clone() *State {
	n := &State{nextObj: st.nextObj, steps: st.steps, status: st.status}
	n.heap = make(map[int]Value, len(st.heap))
	for k, v := range st.heap {
		n.heap[k] = v
	}
	n.htype = st.htype // append-only per path; shared copy-on-write below
	n.htype = make(map[int]types.Type, len(st.htype))
	for k, v := range st.htype {
		n.htype[k] = v
	}
	n.frames = make([]*Frame, len(st.frames))
	for i, f := range st.frames {
		nf := *f
		nf.regs = append([]Value(nil), f.regs...)
		nf.defers = append([]deferred(nil), f.defers...)
		nf.visits = make(map[int]int, len(f.visits))
		for k, v := range f.visits {
			nf.visits[k] = v
		}
		n.frames[i] = &nf
	}
	n.pc = append([]*Term(nil), st.pc...)
	n.model = st.model
	n.bind = make(map[int]uint64, len(st.bind))
	for k, v := range st.bind {
		n.bind[k] = v
	}
	n.globals = make(map[*ssa.Global]int, len(st.globals))
	for k, v := range st.globals {
		n.globals[k] = v
	}
	n.nondetN = make(map[string]int, len(st.nondetN))
	for k, v := range st.nondetN {
		n.nondetN[k] = v
	}
	n.obs = append([]obsRec(nil), st.obs...)
	n.classes = make(map[string]*Term, len(st.classes))
	for k, v := range st.classes {
		n.classes[k] = v
	}
	n.covers = make(map[string]bool, len(st.covers))
	for k, v := range st.covers {
		n.covers[k] = v
	}
	n.failed = append([]failRec(nil), st.failed...)
	n.inited = make(map[*ssa.Package]bool, len(st.inited))
	for k, v := range st.inited {
		n.inited[k] = v
	}
	n.ghost = make(map[string]Value, len(st.ghost))
	for k, v := range st.ghost {
		n.ghost[k] = v
	}
	return n
}

func (st *State) top() *Frame { return st.frames[len(st.frames)-1] }

func (st *State) alloc(v Value, t types.Type) int {
	id := st.nextObj
	st.nextObj++
	st.heap[id] = v
	st.htype[id] = t
	return id
}

// forkReq asks the step loop to split the state; the current instruction is re-executed in
// every child, where the added bindings make the previously symbolic decision concrete.
type forkAlt struct {
	conds []*Term
	binds map[int]uint64
}
type forkReq struct{ alts []forkAlt }

// known returns the concrete value of t if it is a constant or bound on this path.
func (st *State) known(t *Term) (uint64, bool) {
	if t.op == OpConst {
		return t.cval, true
	}
	v, ok := st.bind[t.id]
	return v, ok
}

func (e *Engine) addPC(st *State, c *Term) {
	if c.IsTrue() {
		return
	}
	st.pc = append(st.pc, c)
	if st.model != nil && e.ts.Eval(c, st.model, map[int]uint64{}) == 0 {
		st.model = nil
	}
}

// modelFor returns a model of pc ∧ extra, or nil.
func (e *Engine) modelFor(st *State, extra ...*Term) (SatResult, map[string]uint64) {
	as := append(append([]*Term(nil), st.pc...), extra...)
	return e.sol.Check(as, true)
}

// concU64 returns the concrete value of t on this path, forking over its feasible values when
// it is symbolic. limit bounds the number of alternatives.
func (e *Engine) concU64(st *State, t *Term) uint64 {
	if v, ok := st.known(t); ok {
		return v
	}
	// enumerate feasible values
	var vals []uint64
	var excl []*Term
	for {
		res, m := e.modelFor(st, excl...)
		if res == Unsat {
			break
		}
		if res == Unknown || m == nil {
			panic(unsupported("solver could not enumerate values of a symbolic size/index"))
		}
		v := e.ts.Eval(t, m, map[int]uint64{})
		vals = append(vals, v)
		excl = append(excl, e.ts.Not(e.ts.Eq(t, e.ts.constOf(t.w, v))))
		if len(vals) > e.maxFork {
			panic(boundExceeded{fmt.Sprintf("more than %d feasible values for a symbolic size/index", e.maxFork)})
		}
	}
	if len(vals) == 0 {
		// path condition itself infeasible
		panic(infeasiblePath{})
	}
	if len(vals) == 1 {
		st.bind[t.id] = vals[0]
		e.addPC(st, e.ts.Eq(t, e.ts.constOf(t.w, vals[0])))
		return vals[0]
	}
	sort.Slice(vals, func(i, j int) bool { return vals[i] < vals[j] })
	var alts []forkAlt
	for _, v := range vals {
		alts = append(alts, forkAlt{conds: []*Term{e.ts.Eq(t, e.ts.constOf(t.w, v))}, binds: map[int]uint64{t.id: v}})
	}
	panic(forkReq{alts})
}

// concBool decides a Boolean term on this path, forking when both outcomes are feasible.
func (e *Engine) concBool(st *State, t *Term) bool {
	if v, ok := st.known(t); ok {
		return v != 0
	}
	ft, _ := e.probe(st, t)
	ff, _ := e.probe(st, e.ts.Not(t))
	switch {
	case ft && ff:
		panic(forkReq{[]forkAlt{
			{conds: []*Term{t}, binds: map[int]uint64{t.id: 1}},
			{conds: []*Term{e.ts.Not(t)}, binds: map[int]uint64{t.id: 0}},
		}})
	case ft:
		st.bind[t.id] = 1
		e.addPC(st, t)
		return true
	case ff:
		st.bind[t.id] = 0
		e.addPC(st, e.ts.Not(t))
		return false
	}
	panic(infeasiblePath{})
}

type boundExceeded struct{ msg string }
type infeasiblePath struct{}

// ---------- heap access ----------

func (e *Engine) pathGet(st *State, v Value, path []PathEl) Value {
	for i, el := range path {
		switch x := v.(type) {
		case StructV:
			v = x.f[el.idx]
		case ArrayV:
			if el.sym != nil {
				if k, ok := st.known(el.sym); ok {
					v = x.e[int(k)]
					continue
				}
				// ite chain over all elements (index is in bounds: checked at IndexAddr)
				rest := path[i+1:]
				var acc Value
				for k := len(x.e) - 1; k >= 0; k-- {
					ev := e.pathGet(st, x.e[k], rest)
					if acc == nil {
						acc = ev
						continue
					}
					m, ok := e.mergeValues(e.ts.Eq(el.sym, e.ts.BV(uint64(k), 64)), ev, acc)
					if !ok {
						// shapes differ: concretise the index (forks)
						e.concU64(st, el.sym)
						return e.pathGet(st, x, path[i:])
					}
					acc = m
				}
				if acc == nil {
					panic(goPanic{site: "index out of range (empty array)"})
				}
				return acc
			}
			if el.idx < 0 || el.idx >= len(x.e) {
				panic(fmt.Sprintf("engine: path index %d out of range %d", el.idx, len(x.e)))
			}
			v = x.e[el.idx]
		default:
			panic(fmt.Sprintf("engine: pathGet through %T", v))
		}
	}
	return v
}

func (e *Engine) pathSet(st *State, v Value, path []PathEl, nv Value, guard *Term) Value {
	if len(path) == 0 {
		if guard == nil {
			return nv
		}
		m, ok := e.mergeValues(guard, nv, v)
		if !ok {
			panic(mergeFail{})
		}
		return m
	}
	el := path[0]
	switch x := v.(type) {
	case StructV:
		nf := append([]Value(nil), x.f...)
		nf[el.idx] = e.pathSet(st, x.f[el.idx], path[1:], nv, guard)
		return StructV{nf}
	case ArrayV:
		ne := append([]Value(nil), x.e...)
		if el.sym != nil {
			if k, ok := st.known(el.sym); ok {
				ne[int(k)] = e.pathSet(st, x.e[int(k)], path[1:], nv, guard)
				return ArrayV{ne}
			}
			for k := range ne {
				g := e.ts.Eq(el.sym, e.ts.BV(uint64(k), 64))
				if guard != nil {
					g = e.ts.And(guard, g)
				}
				ne[k] = e.pathSet(st, x.e[k], path[1:], nv, g)
			}
			return ArrayV{ne}
		}
		ne[el.idx] = e.pathSet(st, x.e[el.idx], path[1:], nv, guard)
		return ArrayV{ne}
	}
	panic(fmt.Sprintf("engine: pathSet through %T", v))
}

type mergeFail struct{}

func (e *Engine) load(st *State, p PtrV) Value {
	if p.obj == 0 {
		panic(goPanic{site: "nil pointer dereference"})
	}
	root, ok := st.heap[p.obj]
	if !ok {
		panic(fmt.Sprintf("engine: dangling object %d", p.obj))
	}
	return e.pathGet(st, root, p.path)
}

func (e *Engine) store(st *State, p PtrV, v Value) {
	if p.obj == 0 {
		panic(goPanic{site: "nil pointer dereference"})
	}
	root := st.heap[p.obj]
	var nr Value
	func() {
		defer func() {
			if r := recover(); r != nil {
				if _, ok := r.(mergeFail); ok {
					// concretise the first symbolic index on the path and retry
					for _, el := range p.path {
						if el.sym != nil {
							if _, known := st.known(el.sym); !known {
								e.concU64(st, el.sym)
							}
						}
					}
					nr = e.pathSet(st, root, p.path, v, nil)
					return
				}
				panic(r)
			}
		}()
		nr = e.pathSet(st, root, p.path, v, nil)
	}()
	st.heap[p.obj] = nr
}

// sliceElems returns the elements of a slice (a copy of the slice view).
func (e *Engine) sliceElems(st *State, s SliceV) []Value {
	if s.len == 0 {
		return nil
	}
	arr := e.pathGet(st, st.heap[s.obj], s.path).(ArrayV)
	return arr.e[s.off : s.off+s.len]
}

func (e *Engine) newSlice(st *State, elems []Value, capacity int, elemT types.Type) SliceV {
	if capacity < len(elems) {
		capacity = len(elems)
	}
	arr := make([]Value, capacity)
	copy(arr, elems)
	if capacity > len(elems) {
		z := e.zero(elemT)
		for i := len(elems); i < capacity; i++ {
			arr[i] = z
		}
	}
	id := st.alloc(ArrayV{arr}, types.NewArray(elemT, int64(capacity)))
	return SliceV{obj: id, len: len(elems), cap: capacity}
}

func (e *Engine) setSliceElem(st *State, s SliceV, i int, v Value) {
	p := PtrV{obj: s.obj, path: appendPath(s.path, PathEl{idx: s.off + i})}
	e.store(st, p, v)
}
