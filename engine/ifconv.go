package main

// If-conversion: a symbolic branch whose two sides reach their common post-dominator through
// side-effect-free instructions only is not forked; the phi nodes at the join become ite terms
// (DESIGN.md §2.2: merge at post-dominators, restricted to pure regions; anything else forks).

import (
	"go/token"
	"sync"

	"golang.org/x/tools/go/ssa"
)

var ipdomCache sync.Map // *ssa.Function -> []int

// ipdoms returns, per block index, the index of the immediate post-dominator (-1: none/exit).
func ipdoms(fn *ssa.Function) []int {
	if v, ok := ipdomCache.Load(fn); ok {
		return v.([]int)
	}
	n := len(fn.Blocks)
	words := (n + 1 + 63) / 64
	full := make([]uint64, words)
	for i := 0; i <= n; i++ {
		full[i/64] |= 1 << uint(i%64)
	}
	pd := make([][]uint64, n+1)
	for i := 0; i <= n; i++ {
		pd[i] = append([]uint64(nil), full...)
	}
	// exit node n post-dominated only by itself
	pd[n] = make([]uint64, words)
	pd[n][n/64] |= 1 << uint(n%64)
	changed := true
	for changed {
		changed = false
		for i := n - 1; i >= 0; i-- {
			b := fn.Blocks[i]
			nw := append([]uint64(nil), full...)
			if len(b.Succs) == 0 {
				copy(nw, pd[n])
			} else {
				for _, s := range b.Succs {
					for w := range nw {
						nw[w] &= pd[s.Index][w]
					}
				}
			}
			nw[i/64] |= 1 << uint(i%64)
			same := true
			for w := range nw {
				if nw[w] != pd[i][w] {
					same = false
				}
			}
			if !same {
				pd[i] = nw
				changed = true
			}
		}
	}
	count := func(s []uint64) int {
		c := 0
		for _, w := range s {
			c += popcount(w)
		}
		return c
	}
	res := make([]int, n)
	for i := 0; i < n; i++ {
		res[i] = -1
		ci := count(pd[i])
		for d := 0; d < n; d++ {
			if d == i || pd[i][d/64]&(1<<uint(d%64)) == 0 {
				continue
			}
			if count(pd[d]) == ci-1 {
				res[i] = d
				break
			}
		}
	}
	ipdomCache.Store(fn, res)
	return res
}

type arrival struct {
	cond  *Term
	pred  *ssa.BasicBlock
	regs  []Value
	isRet bool
	ret   Value
}

type specAbort struct{}

var pureModels = map[string]bool{"fmt.Errorf": true, "fmt.Sprintf": true, "fmt.Sprint": true, "errors.Join": true, "bytes.Equal": true, "math.Ceil": true}

// execPure executes instruction in if it is side-effect free; returns false otherwise.
func (e *Engine) execPure(st *State, fr *Frame, in ssa.Instruction) bool {
	switch x := in.(type) {
	case *ssa.DebugRef:
	case *ssa.BinOp:
		e.set(fr, x, e.binop(st, x.Op, e.get(st, fr, x.X), e.get(st, fr, x.Y), x.X.Type(), x.Y.Type()))
	case *ssa.UnOp:
		if x.Op == token.ARROW {
			return false
		}
		e.set(fr, x, e.unop(st, fr, x))
	case *ssa.ChangeInterface:
		e.set(fr, x, e.get(st, fr, x.X))
	case *ssa.ChangeType:
		e.set(fr, x, e.get(st, fr, x.X))
	case *ssa.Convert:
		if _, isStr := e.get(st, fr, x.X).(StringV); isStr {
			return false // may allocate
		}
		if _, isSl := e.get(st, fr, x.X).(SliceV); isSl {
			return false
		}
		e.set(fr, x, e.convert(st, e.get(st, fr, x.X), x.X.Type(), x.Type()))
	case *ssa.Extract:
		t := e.get(st, fr, x.Tuple).(TupleV)
		e.set(fr, x, t.e[x.Index])
	case *ssa.Field:
		s := e.get(st, fr, x.X).(StructV)
		e.set(fr, x, s.f[x.Field])
	case *ssa.FieldAddr:
		p := e.get(st, fr, x.X).(PtrV)
		if p.obj == 0 {
			panic(goPanic{site: "nil pointer dereference"})
		}
		e.set(fr, x, PtrV{obj: p.obj, path: appendPath(p.path, PathEl{idx: x.Field})})
	case *ssa.Index:
		e.set(fr, x, e.index(st, fr, x))
	case *ssa.IndexAddr:
		e.set(fr, x, e.indexAddr(st, fr, x))
	case *ssa.MakeInterface:
		e.set(fr, x, IfaceV{typ: x.X.Type(), v: e.get(st, fr, x.X)})
	case *ssa.TypeAssert:
		e.set(fr, x, e.typeAssert(st, fr, x))
	case *ssa.Slice:
		e.set(fr, x, e.slice(st, fr, x))
	case *ssa.Call:
		b, ok := x.Call.Value.(*ssa.Builtin)
		if !ok {
			// calls to side-effect-free models
			callee := x.Call.StaticCallee()
			if callee == nil || x.Call.IsInvoke() || !pureModels[callee.String()] {
				return false
			}
			var args []Value
			for _, a := range x.Call.Args {
				args = append(args, e.get(st, fr, a))
			}
			r, handled := e.tryModel(st, callee, args, nil)
			if !handled {
				return false
			}
			if r != nil {
				e.set(fr, x, r)
			}
			return true
		}
		switch b.Name() {
		case "len", "cap", "min", "max":
			var args []Value
			for _, a := range x.Call.Args {
				args = append(args, e.get(st, fr, a))
			}
			e.set(fr, x, e.builtin(st, fr, b.Name(), args, &x.Call))
		default:
			return false
		}
	default:
		return false
	}
	return true
}

// specRegion explores from blk (entered from pred) to join purely.
func (e *Engine) specRegion(st *State, fr *Frame, blk, pred, join *ssa.BasicBlock, cond *Term, budget *int, out *[]arrival) {
	if blk == join {
		*out = append(*out, arrival{cond: cond, pred: pred, regs: fr.regs})
		return
	}
	*budget--
	if *budget < 0 {
		panic(specAbort{})
	}
	// private register file for this block onwards
	nf := *fr
	nf.regs = append([]Value(nil), fr.regs...)
	nf.block, nf.prev = blk, pred
	// phis (parallel)
	var vals []Value
	var phis []*ssa.Phi
	for _, in := range blk.Instrs {
		phi, ok := in.(*ssa.Phi)
		if !ok {
			break
		}
		pi := -1
		for i, p := range blk.Preds {
			if p == pred {
				pi = i
			}
		}
		vals = append(vals, e.get(st, &nf, phi.Edges[pi]))
		phis = append(phis, phi)
	}
	for i, phi := range phis {
		e.set(&nf, phi, vals[i])
	}
	for _, in := range blk.Instrs[len(phis):] {
		switch x := in.(type) {
		case *ssa.Return:
			if join != nil {
				panic(specAbort{})
			}
			var rv Value
			switch len(x.Results) {
			case 0:
			case 1:
				rv = e.get(st, &nf, x.Results[0])
			default:
				el := make([]Value, len(x.Results))
				for i, r := range x.Results {
					el[i] = e.get(st, &nf, r)
				}
				rv = TupleV{el}
			}
			*out = append(*out, arrival{cond: cond, pred: blk, isRet: true, ret: rv})
			return
		case *ssa.Jump:
			e.specRegion(st, &nf, blk.Succs[0], blk, join, cond, budget, out)
			return
		case *ssa.If:
			c := e.get(st, &nf, x.Cond).(*Term)
			if v, ok := st.known(c); ok {
				if v != 0 {
					e.specRegion(st, &nf, blk.Succs[0], blk, join, cond, budget, out)
				} else {
					e.specRegion(st, &nf, blk.Succs[1], blk, join, cond, budget, out)
				}
				return
			}
			e.specRegion(st, &nf, blk.Succs[0], blk, join, e.ts.And(cond, c), budget, out)
			e.specRegion(st, &nf, blk.Succs[1], blk, join, e.ts.And(cond, e.ts.Not(c)), budget, out)
			return
		default:
			if !e.execPure(st, &nf, in) {
				panic(specAbort{})
			}
		}
	}
	panic(specAbort{})
}

// tryIfConvert attempts to merge the two sides of the symbolic branch at the top frame's current
// instruction. Returns true when the frame has been advanced to the join block.
func (e *Engine) tryIfConvert(st *State, fr *Frame, c *Term) (done bool) {
	if e.noIfConv {
		return false
	}
	ip := ipdoms(fr.fn)
	j := ip[fr.block.Index]
	var join *ssa.BasicBlock
	if j >= 0 {
		join = fr.fn.Blocks[j]
	} else if len(fr.defers) > 0 || fr.onReturn != nil && false {
		return false
	}
	// the join must start with phis or be reached by pure paths; arrivals carry everything
	nbind := len(st.bind)
	npc := len(st.pc)
	var arr []arrival
	ok := func() (ok bool) {
		defer func() {
			if r := recover(); r != nil {
				ok = false
			}
		}()
		budget := 24
		e.specRegion(st, fr, fr.block.Succs[0], fr.block, join, c, &budget, &arr)
		e.specRegion(st, fr, fr.block.Succs[1], fr.block, join, e.ts.Not(c), &budget, &arr)
		return true
	}()
	_ = nbind
	if len(st.pc) != npc {
		// speculation may only have added facts implied by the old pc (single-feasible bindings)
	}
	if !ok || len(arr) == 0 {
		return false
	}
	if join == nil {
		// every path returns: merge the return values and return once
		var acc Value
		for a := len(arr) - 1; a >= 0; a-- {
			if !arr[a].isRet {
				return false
			}
			if a == len(arr)-1 {
				acc = arr[a].ret
				continue
			}
			if acc == nil || arr[a].ret == nil {
				if acc != nil || arr[a].ret != nil {
					return false
				}
				continue
			}
			m, mok := e.mergeValues(arr[a].cond, arr[a].ret, acc)
			if !mok {
				return false
			}
			acc = m
		}
		e.res.PathStatus["if-converted"]++
		e.doReturn(st, acc)
		return true
	}
	// phis at the join
	var phis []*ssa.Phi
	for _, in := range join.Instrs {
		phi, isPhi := in.(*ssa.Phi)
		if !isPhi {
			break
		}
		phis = append(phis, phi)
	}
	vals := make([]Value, len(phis))
	for k, phi := range phis {
		var acc Value
		for a := len(arr) - 1; a >= 0; a-- {
			ar := arr[a]
			pi := -1
			for i, p := range join.Preds {
				if p == ar.pred {
					pi = i
				}
			}
			if pi < 0 {
				return false
			}
			tmp := *fr
			tmp.regs = ar.regs
			v := e.get(st, &tmp, phi.Edges[pi])
			if acc == nil {
				acc = v
				continue
			}
			m, mok := e.mergeValues(ar.cond, v, acc)
			if !mok {
				return false
			}
			acc = m
		}
		vals[k] = acc
	}
	for k, phi := range phis {
		e.set(fr, phi, vals[k])
	}
	fr.prev = fr.block
	fr.block = join
	fr.ip = len(phis)
	fr.visits[join.Index]++
	if fr.visits[join.Index] > e.maxUnwind {
		panic(boundExceeded{"unwinding bound exceeded at merged join"})
	}
	e.res.PathStatus["if-converted"]++
	return true
}
