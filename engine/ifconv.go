package main

// If-conversion: a symbolic branch whose two sides reach their common post-dominator through
// side-effect-free instructions only is not forked; the phi nodes at the join become ite terms
// (DESIGN.md §2.2: merge at post-dominators, restricted to pure regions; anything else forks).

import (
	"go/token"
	"os"
	"reflect"
	"sync"

	"golang.org/x/tools/go/ssa"
)

var ipdomCache sync.Map // *ssa.Function -> []int

// ipdoms returns, per block index, the index of the immediate post-dominator (-1: none/exit).
func ipdoms(fn *ssa.Function) []int {
	if v, ok := ipdomCache.Load(fn); ok {
		return v.([]int)
	}
	n := len(fn.Blocks)
	words := (n + 1 + 63) / 64
	full := make([]uint64, words)
	for i := 0; i <= n; i++ {
		full[i/64] |= 1 << uint(i%64)
	}
	pd := make([][]uint64, n+1)
	for i := 0; i <= n; i++ {
		pd[i] = append([]uint64(nil), full...)
	}
	// exit node n post-dominated only by itself
	pd[n] = make([]uint64, words)
	pd[n][n/64] |= 1 << uint(n%64)
	changed := true
	for changed {
		changed = false
		for i := n - 1; i >= 0; i-- {
			b := fn.Blocks[i]
			nw := append([]uint64(nil), full...)
			if len(b.Succs) == 0 {
				copy(nw, pd[n])
			} else {
				for _, s := range b.Succs {
					for w := range nw {
						nw[w] &= pd[s.Index][w]
					}
				}
			}
			nw[i/64] |= 1 << uint(i%64)
			same := true
			for w := range nw {
				if nw[w] != pd[i][w] {
					same = false
				}
			}
			if !same {
				pd[i] = nw
				changed = true
			}
		}
	}
	count := func(s []uint64) int {
		c := 0
		for _, w := range s {
			c += popcount(w)
		}
		return c
	}
	res := make([]int, n)
	for i := 0; i < n; i++ {
		res[i] = -1
		ci := count(pd[i])
		for d := 0; d < n; d++ {
			if d == i || pd[i][d/64]&(1<<uint(d%64)) == 0 {
				continue
			}
			if count(pd[d]) == ci-1 {
				res[i] = d
				break
			}
		}
	}
	ipdomCache.Store(fn, res)
	return res
}

type arrival struct {
	cond  *Term
	pred  *ssa.BasicBlock
	regs  []Value
	isRet bool
	ret   Value
}

type specAbort struct{}

type siteKey struct {
	fn  *ssa.Function
	blk int
}
type siteStat struct{ ok, fail int }

var pureModels = map[string]bool{"fmt.Errorf": true, "fmt.Sprintf": true, "fmt.Sprint": true, "errors.Join": true, "bytes.Equal": true, "math.Ceil": true}

// execPure executes instruction in if it is side-effect free; returns false otherwise.
func (e *Engine) execPure(st *State, fr *Frame, in ssa.Instruction, budget *int) bool {
	switch x := in.(type) {
	case *ssa.DebugRef:
	case *ssa.BinOp:
		e.set(fr, x, e.binop(st, x.Op, e.get(st, fr, x.X), e.get(st, fr, x.Y), x.X.Type(), x.Y.Type()))
	case *ssa.UnOp:
		if x.Op == token.ARROW {
			return false
		}
		e.set(fr, x, e.unop(st, fr, x))
	case *ssa.ChangeInterface:
		e.set(fr, x, e.get(st, fr, x.X))
	case *ssa.ChangeType:
		e.set(fr, x, e.get(st, fr, x.X))
	case *ssa.Convert:
		if _, isStr := e.get(st, fr, x.X).(StringV); isStr {
			return false // may allocate
		}
		if _, isSl := e.get(st, fr, x.X).(SliceV); isSl {
			return false
		}
		e.set(fr, x, e.convert(st, e.get(st, fr, x.X), x.X.Type(), x.Type()))
	case *ssa.Extract:
		t := e.get(st, fr, x.Tuple).(TupleV)
		e.set(fr, x, t.e[x.Index])
	case *ssa.Field:
		s := e.get(st, fr, x.X).(StructV)
		e.set(fr, x, s.f[x.Field])
	case *ssa.FieldAddr:
		p := e.get(st, fr, x.X).(PtrV)
		if p.obj == 0 {
			panic(goPanic{site: "nil pointer dereference"})
		}
		e.set(fr, x, PtrV{obj: p.obj, path: appendPath(p.path, PathEl{idx: x.Field})})
	case *ssa.Index:
		e.set(fr, x, e.index(st, fr, x))
	case *ssa.IndexAddr:
		e.set(fr, x, e.indexAddr(st, fr, x))
	case *ssa.MakeInterface:
		e.set(fr, x, IfaceV{typ: x.X.Type(), v: e.get(st, fr, x.X)})
	case *ssa.TypeAssert:
		e.set(fr, x, e.typeAssert(st, fr, x))
	case *ssa.Slice:
		e.set(fr, x, e.slice(st, fr, x))
	case *ssa.Call:
		b, ok := x.Call.Value.(*ssa.Builtin)
		if !ok {
			var callee *ssa.Function
			var args, bind []Value
			if x.Call.IsInvoke() {
				recv, isIface := e.get(st, fr, x.Call.Value).(IfaceV)
				if !isIface || recv.typ == nil || recv.typ == e.opaqueErrT || recv.typ == ctxTokT || recv.typ == shaHasherT {
					return false
				}
				callee = e.lookupMethod(recv.typ, x.Call.Method)
				args = append(args, recv.v)
			} else if sc := x.Call.StaticCallee(); sc != nil {
				callee = sc
				if mc, isClosure := x.Call.Value.(*ssa.MakeClosure); isClosure {
					for _, bv := range mc.Bindings {
						bind = append(bind, e.get(st, fr, bv))
					}
				}
			} else {
				fv, isFn := e.get(st, fr, x.Call.Value).(FuncV)
				if !isFn || fv.fn == nil {
					return false
				}
				callee, bind = fv.fn, fv.bind
			}
			for _, a := range x.Call.Args {
				args = append(args, e.get(st, fr, a))
			}
			if pureModels[callee.String()] {
				r, handled := e.tryModel(st, callee, args, nil)
				if !handled {
					return false
				}
				if r != nil {
					e.set(fr, x, r)
				}
				return true
			}
			if e.findModel(callee) != nil || isHarnessIntrinsic(e.prog, callee) {
				return false
			}
			if _, redirected := e.redirects[callee.String()]; redirected {
				callee = e.redirects[callee.String()]
			}
			if os.Getenv("VERIF_NO_SPECCALL") != "" {
				return false
			}
			r := e.specCall(st, callee, args, bind, budget)
			if r != nil {
				e.set(fr, x, r)
			}
			return true
		}
		switch b.Name() {
		case "len", "cap", "min", "max":
			var args []Value
			for _, a := range x.Call.Args {
				args = append(args, e.get(st, fr, a))
			}
			e.set(fr, x, e.builtin(st, fr, b.Name(), args, &x.Call))
		default:
			return false
		}
	default:
		return false
	}
	return true
}

// specRegion explores from blk (entered from pred) to join purely. Symbolic branches whose own
// post-dominator lies strictly inside the region are merged there (so loops with conditional
// updates do not multiply arrivals); others propagate their arrivals to the outer join.
func (e *Engine) specRegion(st *State, fr *Frame, blk, pred, join *ssa.BasicBlock, cond *Term, budget *int, out *[]arrival) {
	e.specRegionFrom(st, fr, blk, pred, join, cond, budget, out, false)
}

func (e *Engine) mergePhisAt(st *State, fr *Frame, jb *ssa.BasicBlock, arr []arrival) bool {
	var phis []*ssa.Phi
	for _, in := range jb.Instrs {
		phi, isPhi := in.(*ssa.Phi)
		if !isPhi {
			break
		}
		phis = append(phis, phi)
	}
	vals := make([]Value, len(phis))
	for k, phi := range phis {
		var acc Value
		for a := len(arr) - 1; a >= 0; a-- {
			ar := arr[a]
			if ar.isRet {
				return false
			}
			pi := -1
			for i, p := range jb.Preds {
				if p == ar.pred {
					pi = i
				}
			}
			if pi < 0 {
				return false
			}
			tmp := *fr
			tmp.regs = ar.regs
			v := e.get(st, &tmp, phi.Edges[pi])
			if acc == nil {
				acc = v
				continue
			}
			m, mok := e.mergeValues(ar.cond, v, acc)
			if !mok {
				return false
			}
			acc = m
		}
		vals[k] = acc
	}
	// Registers defined in blocks that dominate the join stay visible after it without a phi
	// (a loop header's phis after the loop exit, a value computed before a break). If the
	// speculated paths re-executed such a block, the arrivals disagree on those registers and
	// they have to be merged exactly like phis; otherwise the continuation would read the value
	// from before the region.
	type pend struct {
		idx int
		v   Value
	}
	var pends []pend
	for _, d := range fr.fi.defs {
		if d.blk == jb && d.isPhi {
			continue
		}
		if !d.blk.Dominates(jb) {
			continue
		}
		changed := false
		for _, ar := range arr {
			if d.idx >= len(ar.regs) || !sameReg(ar.regs[d.idx], fr.regs[d.idx]) {
				changed = true
				break
			}
		}
		if !changed {
			continue
		}
		var acc Value
		for a := len(arr) - 1; a >= 0; a-- {
			v := arr[a].regs[d.idx]
			if v == nil {
				return false
			}
			if acc == nil {
				acc = v
				continue
			}
			m, mok := e.mergeValues(arr[a].cond, v, acc)
			if !mok {
				return false
			}
			acc = m
		}
		pends = append(pends, pend{d.idx, acc})
	}
	for k, phi := range phis {
		e.set(fr, phi, vals[k])
	}
	for _, pd := range pends {
		fr.regs[pd.idx] = pd.v
	}
	return true
}

func sameReg(a, b Value) bool {
	if a == nil || b == nil {
		return a == nil && b == nil
	}
	ta, oka := a.(*Term)
	tb, okb := b.(*Term)
	if oka || okb {
		return oka && okb && ta == tb
	}
	return reflect.DeepEqual(a, b)
}

func (e *Engine) specRegionFrom(st *State, fr *Frame, blk, pred, join *ssa.BasicBlock, cond *Term, budget *int, out *[]arrival, phisDone bool) {
	if blk == join && !phisDone {
		*out = append(*out, arrival{cond: cond, pred: pred, regs: fr.regs})
		return
	}
	*budget--
	if *budget < 0 {
		panic(specAbort{})
	}
	// private register file for this block onwards
	nf := *fr
	nf.regs = append([]Value(nil), fr.regs...)
	nf.block, nf.prev = blk, pred
	nphi := 0
	for _, in := range blk.Instrs {
		if _, ok := in.(*ssa.Phi); !ok {
			break
		}
		nphi++
	}
	if !phisDone && nphi > 0 {
		var vals []Value
		for _, in := range blk.Instrs[:nphi] {
			phi := in.(*ssa.Phi)
			pi := -1
			for i, p := range blk.Preds {
				if p == pred {
					pi = i
				}
			}
			vals = append(vals, e.get(st, &nf, phi.Edges[pi]))
		}
		for i, in := range blk.Instrs[:nphi] {
			e.set(&nf, in.(*ssa.Phi), vals[i])
		}
	}
	for _, in := range blk.Instrs[nphi:] {
		switch x := in.(type) {
		case *ssa.Return:
			if join != nil {
				panic(specAbort{})
			}
			var rv Value
			switch len(x.Results) {
			case 0:
			case 1:
				rv = e.get(st, &nf, x.Results[0])
			default:
				el := make([]Value, len(x.Results))
				for i, r := range x.Results {
					el[i] = e.get(st, &nf, r)
				}
				rv = TupleV{el}
			}
			*out = append(*out, arrival{cond: cond, pred: blk, isRet: true, ret: rv})
			return
		case *ssa.Jump:
			e.specRegionFrom(st, &nf, blk.Succs[0], blk, join, cond, budget, out, false)
			return
		case *ssa.If:
			c := e.get(st, &nf, x.Cond).(*Term)
			if v, ok := st.known(c); ok {
				if v != 0 {
					e.specRegionFrom(st, &nf, blk.Succs[0], blk, join, cond, budget, out, false)
				} else {
					e.specRegionFrom(st, &nf, blk.Succs[1], blk, join, cond, budget, out, false)
				}
				return
			}
			ip := ipdoms(blk.Parent())
			var inner *ssa.BasicBlock
			if j := ip[blk.Index]; j >= 0 {
				inner = blk.Parent().Blocks[j]
			}
			if inner != nil && inner != join && os.Getenv("VERIF_NO_INNER") == "" {
				// merge at the inner join, then continue from there
				var arr []arrival
				e.specRegionFrom(st, &nf, blk.Succs[0], blk, inner, c, budget, &arr, false)
				e.specRegionFrom(st, &nf, blk.Succs[1], blk, inner, e.ts.Not(c), budget, &arr, false)
				if !e.mergePhisAt(st, &nf, inner, arr) {
					panic(specAbort{})
				}
				e.specRegionFrom(st, &nf, inner, blk, join, cond, budget, out, true)
				return
			}
			e.specRegionFrom(st, &nf, blk.Succs[0], blk, join, e.ts.And(cond, c), budget, out, false)
			e.specRegionFrom(st, &nf, blk.Succs[1], blk, join, e.ts.And(cond, e.ts.Not(c)), budget, out, false)
			return
		default:
			if !e.execPure(st, &nf, in, budget) {
				panic(specAbort{})
			}
		}
	}
	panic(specAbort{})
}

// specCall evaluates a call to a Go function purely (all paths merged); aborts if impure.
func (e *Engine) specCall(st *State, fn *ssa.Function, args, bind []Value, budget *int) Value {
	e.specDepth++
	defer func() { e.specDepth-- }()
	if e.specDepth > 6 || len(fn.Blocks) == 0 {
		panic(specAbort{})
	}
	fi := getFuncInfo(fn)
	fr := &Frame{fi: fi, fn: fn, block: fn.Blocks[0], regs: make([]Value, fi.nregs), visits: map[int]int{}}
	if len(args) != len(fn.Params) {
		panic(specAbort{})
	}
	copy(fr.regs, args)
	copy(fr.regs[len(fn.Params):], bind)
	var arr []arrival
	e.specRegionFrom(st, fr, fn.Blocks[0], nil, nil, e.ts.True, budget, &arr, false)
	var acc Value
	for a := len(arr) - 1; a >= 0; a-- {
		if !arr[a].isRet {
			panic(specAbort{})
		}
		if a == len(arr)-1 {
			acc = arr[a].ret
			continue
		}
		if acc == nil || arr[a].ret == nil {
			if acc != nil || arr[a].ret != nil {
				panic(specAbort{})
			}
			continue
		}
		m, ok := e.mergeValues(arr[a].cond, arr[a].ret, acc)
		if !ok {
			panic(specAbort{})
		}
		acc = m
	}
	if e.fnsSeen != nil {
		e.fnsSeen[fn.String()] = true
	}
	return acc
}

// tryIfConvert attempts to merge the two sides of the symbolic branch at the top frame's current
// instruction. Returns true when the frame has been advanced to the join block.
func (e *Engine) tryIfConvert(st *State, fr *Frame, c *Term) (done bool) {
	if e.noIfConv {
		return false
	}
	site := siteKey{fr.fn, fr.block.Index}
	if s := e.ifSites[site]; s != nil && s.fail >= 6 && s.ok == 0 {
		return false
	}
	defer func() {
		s := e.ifSites[site]
		if s == nil {
			s = &siteStat{}
			e.ifSites[site] = s
		}
		if done {
			s.ok++
		} else {
			s.fail++
		}
	}()
	ip := ipdoms(fr.fn)
	j := ip[fr.block.Index]
	var join *ssa.BasicBlock
	if j >= 0 {
		join = fr.fn.Blocks[j]
	} else if len(fr.defers) > 0 || fr.onReturn != nil && false {
		return false
	}
	// the join must start with phis or be reached by pure paths; arrivals carry everything
	nbind := len(st.bind)
	npc := len(st.pc)
	var arr []arrival
	ok := func() (ok bool) {
		defer func() {
			if r := recover(); r != nil {
				ok = false
			}
		}()
		budget := 400
		e.specDepth = 0
		e.specRegion(st, fr, fr.block.Succs[0], fr.block, join, c, &budget, &arr)
		e.specRegion(st, fr, fr.block.Succs[1], fr.block, join, e.ts.Not(c), &budget, &arr)
		return true
	}()
	_ = nbind
	if len(st.pc) != npc {
		// speculation may only have added facts implied by the old pc (single-feasible bindings)
	}
	if !ok || len(arr) == 0 {
		return false
	}
	if join == nil && os.Getenv("VERIF_NO_RETMERGE") != "" {
		return false
	}
	if join == nil {
		// every path returns: merge the return values and return once
		var acc Value
		for a := len(arr) - 1; a >= 0; a-- {
			if !arr[a].isRet {
				return false
			}
			if a == len(arr)-1 {
				acc = arr[a].ret
				continue
			}
			if acc == nil || arr[a].ret == nil {
				if acc != nil || arr[a].ret != nil {
					return false
				}
				continue
			}
			m, mok := e.mergeValues(arr[a].cond, arr[a].ret, acc)
			if !mok {
				return false
			}
			acc = m
		}
		e.res.PathStatus["if-converted"]++
		e.doReturn(st, acc)
		return true
	}
	if !e.mergePhisAt(st, fr, join, arr) {
		return false
	}
	nphis := 0
	for _, in := range join.Instrs {
		if _, isPhi := in.(*ssa.Phi); !isPhi {
			break
		}
		nphis++
	}
	fr.prev = fr.block
	fr.block = join
	fr.ip = nphis
	fr.visits[join.Index]++
	if fr.visits[join.Index] > e.maxUnwind {
		panic(boundExceeded{"unwinding bound exceeded at merged join"})
	}
	e.res.PathStatus["if-converted"]++
	return true
}

func isHarnessIntrinsic(prog *ssa.Program, fn *ssa.Function) bool {
	name := fn.Name()
	if len(name) < 2 || !(len(name) > 6 && name[:6] == "nondet" || name[0] == 'v') {
		return false
	}
	if !isHarnessFile(prog, fn) {
		return false
	}
	switch name {
	case "nondetBool", "nondetU8", "nondetU16", "nondetU32", "nondetU64", "nondetInt", "nondetI64", "vassume", "vassert", "vcover", "vobserve", "vclass", "vpanics", "vblocked", "vsymbolic":
		return true
	}
	return false
}
