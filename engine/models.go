package main

// Harness intrinsics and models of environment / non-Go functions (DESIGN.md §2.4).

import (
	"crypto/sha256"
	"fmt"
	"go/types"
	"strings"

	"golang.org/x/tools/go/ssa"
)

type pending struct{}

// deliver hands a call result to the instruction the (new) top frame is waiting on.
func (e *Engine) deliver(st *State, v Value) {
	if len(st.frames) == 0 {
		st.status = "done"
		return
	}
	caller := st.top()
	in := caller.block.Instrs[caller.ip]
	switch ci := in.(type) {
	case *ssa.Call:
		if v != nil {
			e.set(caller, ci, v)
		}
		caller.ip++
	case *ssa.Go, *ssa.Defer:
		caller.ip++
	case *ssa.RunDefers:
	default:
		panic(fmt.Sprintf("engine: deliver to %T", in))
	}
}

// callThen pushes a frame for fv(args...) whose result is passed to cont (which must not capture
// frames or states: states are cloned on forks).
func (e *Engine) callThen(st *State, fv FuncV, args []Value, cont func(st *State, rv Value)) {
	if fv.fn == nil {
		panic(goPanic{site: "call of nil function"})
	}
	fr := e.pushFrame(st, e.redirect(fv.fn), args, fv.bind)
	fr.onReturn = cont
}

func isHarnessFile(prog *ssa.Program, fn *ssa.Function) bool {
	if fn.Pos().IsValid() {
		name := prog.Fset.Position(fn.Pos()).Filename
		i := strings.LastIndexByte(name, '/')
		return strings.HasPrefix(name[i+1:], "zz_verif")
	}
	return false
}

func (e *Engine) strArg(v Value) string {
	s, ok := v.(StringV)
	if !ok {
		panic("engine: intrinsic expects a string label")
	}
	cs, ok := concreteString(s)
	if !ok {
		panic("engine: intrinsic label must be a constant string")
	}
	return cs
}

func (e *Engine) nondet(st *State, name string, w int) *Term {
	k := st.nondetN[name]
	st.nondetN[name] = k + 1
	full := fmt.Sprintf("%s#%d", name, k)
	if e.pinned != nil {
		if v, ok := e.pinned[full]; ok || !e.pinPartial {
			return e.ts.constOf(w, v&maskSort(w))
		}
	}
	return e.ts.Var(full, w)
}

// intrinsic handles calls to the harness API. ok=false: not an intrinsic.
func (e *Engine) intrinsic(st *State, fr *Frame, fn *ssa.Function, args []Value) (Value, bool) {
	name := fn.Name()
	if len(name) < 2 || !(strings.HasPrefix(name, "nondet") || name[0] == 'v') {
		return nil, false
	}
	if !isHarnessFile(e.prog, fn) {
		return nil, false
	}
	switch name {
	case "nondetBool":
		return e.nondet(st, e.strArg(args[0]), SortBool), true
	case "nondetU8":
		return e.nondet(st, e.strArg(args[0]), 8), true
	case "nondetU16":
		return e.nondet(st, e.strArg(args[0]), 16), true
	case "nondetU32":
		return e.nondet(st, e.strArg(args[0]), 32), true
	case "nondetU64", "nondetInt", "nondetI64":
		return e.nondet(st, e.strArg(args[0]), 64), true
	case "vassume":
		c := args[0].(*Term)
		if v, ok := st.known(c); ok {
			if v == 0 {
				st.status = "assume-false"
			}
			return nil, true
		}
		if !e.feasibleUpd(st, c) {
			st.status = "assume-false"
			return nil, true
		}
		e.addPC(st, c)
		st.bind[c.id] = 1
		return nil, true
	case "vassert":
		e.doAssert(st, args[0].(*Term), e.strArg(args[1]), "assert")
		return nil, true
	case "vcover":
		l := e.strArg(args[0])
		if !st.covers[l] {
			st.covers[l] = true
		}
		e.res.noteCover(e, st, l)
		return nil, true
	case "vobserve":
		st.obs = append(st.obs, obsRec{e.strArg(args[0]), args[1].(*Term)})
		return nil, true
	case "vclass":
		st.classes[e.strArg(args[0])] = args[1].(*Term)
		return nil, true
	case "vpanics":
		fv := args[0].(FuncV)
		nf := e.pushFrame(st, fv.fn, nil, fv.bind)
		nf.catch = "vpanics"
		nf.onReturn = func(st *State, _ Value) { e.deliver(st, e.ts.False) }
		return nil, true
	case "vblocked":
		fv := args[0].(FuncV)
		nf := e.pushFrame(st, fv.fn, nil, fv.bind)
		nf.catch = "vblocked"
		nf.onReturn = func(st *State, _ Value) { e.deliver(st, e.ts.False) }
		return nil, true
	case "vsymbolic":
		return e.ts.True, true
	}
	return nil, false
}

// feasibleUpd checks pc ∧ c and keeps a model of it on the state.
func (e *Engine) feasibleUpd(st *State, c *Term) bool {
	if c.IsFalse() {
		return false
	}
	if st.model != nil && e.ts.Eval(c, st.model, map[int]uint64{}) != 0 {
		e.sol.stats.ModelReuse++
		return true
	}
	res, m := e.modelFor(st, c)
	if res == Unsat {
		return false
	}
	if res == Sat && m != nil {
		st.model = m
	} else {
		st.model = nil
	}
	return true
}

// doAssert discharges an obligation pc ⇒ c.
func (e *Engine) doAssert(st *State, c *Term, label, kind string) {
	e.res.obligation(e, st, c, label, kind)
	if v, ok := st.known(c); ok && v == 0 {
		st.status = "assert-failed"
		return
	}
	if c.IsTrue() {
		return
	}
	if !e.feasibleUpd(st, c) {
		st.status = "assert-failed"
		return
	}
	e.addPC(st, c)
	st.bind[c.id] = 1
}

type modelFn func(e *Engine, st *State, args []Value) Value

var models map[string]modelFn

func noop(e *Engine, st *State, args []Value) Value { return nil }

func init() {
	models = map[string]modelFn{
		"(*sync.Mutex).Lock":      noop,
		"(*sync.Mutex).Unlock":    noop,
		"(*sync.RWMutex).Lock":    noop,
		"(*sync.RWMutex).Unlock":  noop,
		"(*sync.RWMutex).RLock":   noop,
		"(*sync.RWMutex).RUnlock": noop,
		"(*sync.WaitGroup).Add":   noop,
		"(*sync.WaitGroup).Done":  noop,
		"(*sync.WaitGroup).Wait":  noop,
		"(*sync.Once).Do": func(e *Engine, st *State, args []Value) Value {
			panic(unsupported("sync.Once"))
		},
		"math.Ceil": func(e *Engine, st *State, args []Value) Value {
			return e.ts.app(OpFCeil, SortFP, 0, 0, args[0].(*Term))
		},
		"math.Floor": func(e *Engine, st *State, args []Value) Value {
			return e.ts.app(OpFFloor, SortFP, 0, 0, args[0].(*Term))
		},
		"crypto/sha256.Sum256":                 modelSum256,
		"fmt.Errorf":                           modelOpaqueErr,
		"google.golang.org/grpc/status.Error":  modelOpaqueErr,
		"google.golang.org/grpc/status.Errorf": modelOpaqueErr,
		"fmt.Sprintf":                          modelOpaqueStr,
		"fmt.Sprint":                           modelOpaqueStr,
		"fmt.Sprintln":                         modelOpaqueStr,
		"fmt.Fprintf": func(e *Engine, st *State, args []Value) Value {
			return TupleV{[]Value{e.ts.BV(0, 64), IfaceV{}}}
		},
		"fmt.Println": func(e *Engine, st *State, args []Value) Value {
			return TupleV{[]Value{e.ts.BV(0, 64), IfaceV{}}}
		},
		"fmt.Printf": func(e *Engine, st *State, args []Value) Value {
			return TupleV{[]Value{e.ts.BV(0, 64), IfaceV{}}}
		},
		"errors.Join": func(e *Engine, st *State, args []Value) Value {
			var flags []*Term
			for _, x := range e.sliceElems(st, args[0].(SliceV)) {
				iv := x.(IfaceV)
				switch {
				case iv.typ == nil:
				case iv.typ == e.opaqueErrT:
					flags = append(flags, iv.v.(*Term))
				default:
					flags = append(flags, e.ts.True)
				}
			}
			return e.opaqueErr(e.ts.Or(flags...))
		},
		"errors.Is": func(e *Engine, st *State, args []Value) Value {
			a, b := e.concIface(st, args[0].(IfaceV)), e.concIface(st, args[1].(IfaceV))
			if a.typ == nil || b.typ == nil {
				return e.ts.Bool(a.typ == nil && b.typ == nil)
			}
			if !types.Identical(a.typ, b.typ) {
				return e.ts.False
			}
			if _, ok := a.v.(PtrV); ok {
				return e.eqValue(a.v, b.v)
			}
			return e.ts.False
		},
		"bytes.Equal": func(e *Engine, st *State, args []Value) Value {
			a, b := args[0].(SliceV), args[1].(SliceV)
			if a.len != b.len {
				return e.ts.False
			}
			x, y := e.sliceElems(st, a), e.sliceElems(st, b)
			cs := make([]*Term, a.len)
			for i := range cs {
				cs[i] = e.ts.Eq(x[i].(*Term), y[i].(*Term))
			}
			return e.ts.And(cs...)
		},
		"time.Now": func(e *Engine, st *State, args []Value) Value {
			// arbitrary valid wall-clock instant without monotonic reading: wall = nsec (<1e9), ext = seconds since year 1
			ns := e.nondet(st, "time.Now.nsec", 64)
			sec := e.nondet(st, "time.Now.sec", 64)
			if e.pinned == nil {
				e.addPC(st, e.ts.Bin(OpULt, ns, e.ts.BV(1000000000, 64)))
				// seconds between year 1970 and year 2200 (keeps UnixNano in range)
				e.addPC(st, e.ts.Bin(OpULt, e.ts.BV(62135596800, 64), sec))
				e.addPC(st, e.ts.Bin(OpULt, sec, e.ts.BV(62135596800+7258118400, 64)))
			}
			e.modelsUsed["time.Now = arbitrary instant 1970..2200, no monotonic reading"] = true
			return StructV{[]Value{ns, sec, PtrV{}}}
		},
		"time.Since": func(e *Engine, st *State, args []Value) Value {
			e.modelsUsed["time.Since = arbitrary duration"] = true
			return e.nondet(st, "time.Since", 64)
		},
		"runtime.Gosched": noop,
	}
}

func (e *Engine) findModel(fn *ssa.Function) modelFn {
	name := fn.String()
	if m, ok := models[name]; ok {
		return m
	}
	if m := e.findModelGeneric(fn); m != nil {
		return m
	}
	// methods of a logging.Logger implementation: never modelled here (harness supplies no-op logger)
	return nil
}

func (e *Engine) tryModel(st *State, fn *ssa.Function, args []Value, _ func(*State, Value)) (Value, bool) {
	if _, redirected := e.redirects[fn.String()]; redirected {
		return nil, false
	}
	m := e.findModel(fn)
	if m == nil {
		return nil, false
	}
	e.modelsUsed["model "+fn.String()] = true
	return m(e, st, args), true
}

// invokeSpecial handles interface method calls on engine-internal dynamic types.
func (e *Engine) invokeSpecial(st *State, recv IfaceV, method string, args []Value) (Value, bool) {
	if recv.typ == shaHasherT {
		return e.shaMethod(st, recv, method, args)
	}
	if recv.typ == ctxTokT {
		return e.ctxMethod(st, recv, method)
	}
	if recv.typ == e.opaqueErrT {
		switch method {
		case "Error":
			return StringV{opaque: true}, true
		case "Unwrap":
			return IfaceV{}, true
		}
	}
	return nil, false
}

func modelOpaqueErr(e *Engine, st *State, args []Value) Value {
	return e.opaqueErr(e.ts.True)
}

func modelOpaqueStr(e *Engine, st *State, args []Value) Value {
	return StringV{opaque: true}
}

type shaRec struct {
	in  []*Term
	out []*Term
}

// shaOf returns the 32 output bytes for the given input bytes (concrete: real SHA-256;
// symbolic: fresh bytes constrained to be a function of, and injective in, the input).
func (e *Engine) shaOf(st *State, in []*Term) []*Term {
	allc := true
	for _, b := range in {
		if !b.IsConst() {
			allc = false
			break
		}
	}
	out := make([]*Term, 32)
	if allc {
		buf := make([]byte, len(in))
		for i, b := range in {
			buf[i] = byte(b.cval)
		}
		h := sha256.Sum256(buf)
		for i := range out {
			out[i] = e.ts.BV(uint64(h[i]), 8)
		}
		// concrete digests also take part in injectivity against symbolic inputs
		e.shaRecord(st, in, out, false)
		return out
	}
	recs, _ := st.ghost["sha"].([]shaRec)
	for _, r := range recs {
		if len(r.in) == len(in) {
			same := true
			for i := range in {
				if r.in[i] != in[i] {
					same = false
					break
				}
			}
			if same {
				return r.out
			}
		}
	}
	k := st.nondetN["sha256"]
	st.nondetN["sha256"] = k + 1
	for i := range out {
		out[i] = e.ts.Var(fmt.Sprintf("sha256#%d.%d", k, i), 8)
	}
	e.modelsUsed["sha256 on symbolic input = fresh digest, functional and injective w.r.t. all other digests on the path, never the all-zero hash"] = true
	var zs []*Term
	for i := range out {
		zs = append(zs, e.ts.Eq(out[i], e.ts.BV(0, 8)))
	}
	e.addPC(st, e.ts.Not(e.ts.And(zs...)))
	e.shaRecord(st, in, out, true)
	return out
}

func allConst(ts []*Term) bool {
	for _, t := range ts {
		if !t.IsConst() {
			return false
		}
	}
	return true
}

// shaRecord remembers (in, out) and constrains it against every earlier record where at least
// one of the two digests is symbolic: equal inputs <=> equal outputs (function + injectivity).
func (e *Engine) shaRecord(st *State, in, out []*Term, symbolic bool) {
	recs, _ := st.ghost["sha"].([]shaRec)
	for _, r := range recs {
		if len(r.in) == len(in) {
			same := true
			for i := range in {
				if r.in[i] != in[i] {
					same = false
					break
				}
			}
			if same {
				if !symbolic {
					return // already recorded
				}
			}
		}
		if !symbolic && allConst(r.out) {
			continue // two concrete digests: nothing to state
		}
		var outEq []*Term
		for i := range out {
			outEq = append(outEq, e.ts.Eq(out[i], r.out[i]))
		}
		oe := e.ts.And(outEq...)
		if len(r.in) != len(in) {
			e.addPC(st, e.ts.Not(oe))
			continue
		}
		var inEq []*Term
		for i := range in {
			inEq = append(inEq, e.ts.Eq(in[i], r.in[i]))
		}
		ie := e.ts.And(inEq...)
		e.addPC(st, e.ts.Eq(ie, oe))
	}
	st.ghost["sha"] = append(append([]shaRec(nil), recs...), shaRec{in, out})
}

func modelSum256(e *Engine, st *State, args []Value) Value {
	s := args[0].(SliceV)
	el := e.sliceElems(st, s)
	in := make([]*Term, len(el))
	for i, x := range el {
		in[i] = x.(*Term)
	}
	out := e.shaOf(st, in)
	ev := make([]Value, 32)
	for i := range ev {
		ev[i] = out[i]
	}
	return ArrayV{ev}
}
