package main

// Exploration driver: runs one harness at one grid point, collects obligations, covers,
// path statistics and candidate counterexamples.

import (
	"encoding/binary"
	"fmt"
	"go/types"
	"hash/fnv"
	"os"
	"runtime/debug"
	"sort"
	"strings"
	"time"

	"golang.org/x/tools/go/ssa"
)

type OblStat struct {
	Label    string `json:"label"`
	Kind     string `json:"kind"`
	Checked  int    `json:"checked"` // times reached
	Trivial  int    `json:"trivial"` // closed by constant folding
	Unsat    int    `json:"unsat"`   // discharged by the solver
	Sat      int    `json:"sat"`     // violated (candidate)
	Unknown  int    `json:"unknown"` // solver gave no answer
	MaxTerms int    `json:"max_terms"`
}

type Candidate struct {
	Harness string            `json:"harness"`
	Entry   string            `json:"entry"`
	Pkg     string            `json:"pkg"`
	Params  []int             `json:"params"`
	Label   string            `json:"label"`
	Kind    string            `json:"kind"`
	Class   string            `json:"class"` // known-finding class ("" = unlisted)
	Vector  map[string]uint64 `json:"vector"`
	Site    string            `json:"site,omitempty"`
}

type PathSample struct {
	Params []int             `json:"params"`
	Vector map[string]uint64 `json:"vector"`
	Obs    []string          `json:"obs"` // expected observation trace "label=value"
	Covers []string          `json:"covers"`
	Status string            `json:"status"`
}

type RunResult struct {
	Obl          map[string]*OblStat
	Covers       map[string]int
	CoverWitness map[string]map[string]uint64
	Paths        int
	PathStatus   map[string]int
	Candidates   []*Candidate
	candSeen     map[string]int
	Samples      []*PathSample
	Unsupported  map[string]int
	Bounds       map[string]int
	Steps        int
	sampleEvery  int
	maxSamples   int
	harness      *HarnessSpec
	params       []int
	distinctObl  map[uint64]struct{} // (hashed) distinct (label, obligation term, path condition) triples decided under a symbolic path condition
}

func newRunResult() *RunResult {
	return &RunResult{Obl: map[string]*OblStat{}, Covers: map[string]int{}, CoverWitness: map[string]map[string]uint64{}, PathStatus: map[string]int{},
		candSeen: map[string]int{}, Unsupported: map[string]int{}, Bounds: map[string]int{}, distinctObl: map[uint64]struct{}{}, maxSamples: 8}
}

func (r *RunResult) stat(label, kind string) *OblStat {
	s, ok := r.Obl[label]
	if !ok {
		s = &OblStat{Label: label, Kind: kind}
		r.Obl[label] = s
	}
	return s
}

func termSize(t *Term, seen map[int]bool) int {
	if seen[t.id] {
		return 0
	}
	seen[t.id] = true
	n := 1
	for _, a := range t.args {
		n += termSize(a, seen)
	}
	return n
}

func (r *RunResult) noteCover(e *Engine, st *State, label string) {
	r.Covers[label]++
	if _, ok := r.CoverWitness[label]; !ok {
		e.ensureModel(st)
		if st.model != nil {
			r.CoverWitness[label] = e.vectorOf(st, st.model)
		}
	}
}

func (e *Engine) ensureModel(st *State) {
	if st.model != nil {
		// self-check: the cached model must satisfy the whole path condition
		memo := map[int]uint64{}
		okAll := true
		for _, c := range st.pc {
			if e.ts.Eval(c, st.model, memo) == 0 {
				okAll = false
				break
			}
		}
		if okAll {
			return
		}
		e.res.PathStatus["stale-model-repaired"]++
		if os.Getenv("VERIF_DEBUG_MODEL") != "" {
			fmt.Fprintf(os.Stderr, "stale model at %s\n", e.where(st))
		}
		st.model = nil
	}
	res, m := e.sol.Check(st.pc, true)
	if res == Sat {
		st.model = m
	}
}

// vectorOf restricts a model to the nondet variables created on this path (all of them, with
// 0 for those the solver left unconstrained).
func (e *Engine) vectorOf(st *State, model map[string]uint64) map[string]uint64 {
	out := map[string]uint64{}
	for name, n := range st.nondetN {
		for k := 0; k < n; k++ {
			full := fmt.Sprintf("%s#%d", name, k)
			if strings.HasPrefix(full, "sha256#") {
				continue
			}
			out[full] = model[full]
		}
	}
	return out
}

// obligation decides pc ⇒ c and records the outcome.
func (r *RunResult) obligation(e *Engine, st *State, c *Term, label, kind string) {
	s := r.stat(label, kind)
	s.Checked++
	if len(st.pc) > 0 || !c.IsConst() {
		h := fnv.New64a()
		h.Write([]byte(label))
		var buf [8]byte
		binary.LittleEndian.PutUint64(buf[:], uint64(c.id))
		h.Write(buf[:])
		var acc uint64 // order-independent combination of the path condition's term ids
		for _, t := range st.pc {
			x := uint64(t.id)*0x9E3779B97F4A7C15 + 0x632BE59BD9B4E019
			x ^= x >> 29
			acc += x * 0xBF58476D1CE4E5B9
		}
		binary.LittleEndian.PutUint64(buf[:], acc)
		h.Write(buf[:])
		r.distinctObl[h.Sum64()] = struct{}{}
	}
	if c.IsTrue() {
		s.Trivial++
		return
	}
	if v, ok := st.known(c); ok && v != 0 {
		s.Trivial++
		return
	}
	if n := termSize(c, map[int]bool{}); n > s.MaxTerms {
		s.MaxTerms = n
	}
	neg := e.ts.Not(c)
	classes := e.known[label]
	if len(classes) > 0 {
		// first: is there a violation outside every listed class?
		var notK []*Term
		for _, k := range classes {
			if kt, ok := st.classes[k]; ok {
				notK = append(notK, e.ts.Not(kt))
			}
		}
		res, m := e.modelFor(st, append([]*Term{neg}, notK...)...)
		switch res {
		case Sat:
			s.Sat++
			r.addCandidate(e, st, label, kind, "", m, "")
			return
		case Unknown:
			s.Unknown++
			return
		}
		// every violation lies in a listed class: report each class that is hit
		hit := false
		for _, k := range classes {
			kt, ok := st.classes[k]
			if !ok {
				continue
			}
			res, m := e.modelFor(st, neg, kt)
			if res == Sat {
				hit = true
				r.addCandidate(e, st, label, kind, k, m, "")
			} else if res == Unknown {
				s.Unknown++
			}
		}
		if hit {
			s.Sat++
		} else {
			s.Unsat++
		}
		return
	}
	res, m := e.modelFor(st, neg)
	if res == Sat && m != nil && os.Getenv("VERIF_DEBUG_MODEL") != "" {
		memo := map[int]uint64{}
		bad := e.ts.Eval(neg, m, memo) == 0
		for _, pcT := range st.pc {
			if e.ts.Eval(pcT, m, memo) == 0 {
				bad = true
				fmt.Fprintf(os.Stderr, "MODEL-MISMATCH pc term false under solver model: %s\n", e.ts.Script([]*Term{pcT}, false))
			}
		}
		if bad {
			fmt.Fprintf(os.Stderr, "MODEL-MISMATCH at %s label %s model %v\nneg: %s\n", e.where(st), label, m, e.ts.Script([]*Term{neg}, false))
		}
	}
	switch res {
	case Unsat:
		s.Unsat++
	case Sat:
		s.Sat++
		r.addCandidate(e, st, label, kind, "", m, "")
	default:
		s.Unknown++
	}
}

func (r *RunResult) addCandidate(e *Engine, st *State, label, kind, class string, model map[string]uint64, site string) {
	key := label + "|" + class
	r.candSeen[key]++
	if r.candSeen[key] > 1 {
		return
	}
	h := r.harness
	r.Candidates = append(r.Candidates, &Candidate{Harness: h.Name, Entry: h.Entry, Pkg: h.Pkg, Params: r.params, Label: label, Kind: kind, Class: class,
		Vector: e.vectorOf(st, model), Site: site})
}

// finishPath records a terminated path.
func (r *RunResult) finishPath(e *Engine, st *State) {
	r.Paths++
	r.Steps += st.steps
	status := st.status
	if i := strings.IndexByte(status, ':'); i > 0 {
		r.PathStatus[status[:i]]++
	} else {
		r.PathStatus[status]++
	}
	switch {
	case strings.HasPrefix(status, "unsupported:"):
		r.Unsupported[status[len("unsupported:"):]]++
	case strings.HasPrefix(status, "bound:"):
		r.Bounds[status[len("bound:"):]]++
	}
	if status == "done" && len(r.Samples) < r.maxSamples*4 {
		// keep a path sample for translator validation (subsampled later)
		e.ensureModel(st)
		if st.model != nil {
			ps := &PathSample{Params: r.params, Vector: e.vectorOf(st, st.model), Status: status}
			memo := map[int]uint64{}
			for _, o := range st.obs {
				ps.Obs = append(ps.Obs, fmt.Sprintf("%s=%d", o.label, e.ts.Eval(o.val, st.model, memo)))
			}
			for c := range st.covers {
				ps.Covers = append(ps.Covers, c)
			}
			sort.Strings(ps.Covers)
			r.Samples = append(r.Samples, ps)
		}
	}
}

// explore runs the harness entry from a fresh state and explores all paths depth-first.
func (e *Engine) explore(entry *ssa.Function, params []int, deadline time.Time) {
	st := newState()
	args := make([]Value, len(params))
	for i, p := range params {
		args[i] = e.ts.BV(uint64(int64(p)), 64)
	}
	e.curParams = params
	// package initialisation for whitelisted packages, in dependency order
	e.runInits(st)
	if st.status != "" {
		e.res.finishPath(e, st)
		return
	}
	e.pushFrame(st, entry, args, nil)
	stack := []*State{st}
	for len(stack) > 0 {
		cur := stack[len(stack)-1]
		stack = stack[:len(stack)-1]
		var children []*State
		for cur.status == "" && children == nil {
			children = e.step(cur)
		}
		if children != nil {
			for i := len(children) - 1; i >= 0; i-- {
				stack = append(stack, children[i])
			}
			continue
		}
		e.res.finishPath(e, cur)
		if e.res.Paths >= e.maxPaths {
			e.res.Bounds[fmt.Sprintf("path bound %d reached; %d states unexplored", e.maxPaths, len(stack))]++
			e.res.PathStatus["bound"]++
			return
		}
		if !deadline.IsZero() && time.Now().After(deadline) {
			e.res.Bounds[fmt.Sprintf("time budget reached; %d states unexplored", len(stack))]++
			e.res.PathStatus["bound"]++
			return
		}
	}
}

// step executes one instruction; returns non-nil children when the state forked (the parent is
// then dead).
func (e *Engine) step(st *State) (children []*State) {
	defer func() {
		r := recover()
		if r == nil {
			return
		}
		switch x := r.(type) {
		case forkReq:
			children = e.doFork(st, x)
		case goPanic:
			e.handleGoPanic(st, x)
		case blockedErr:
			e.handleBlocked(st, x)
		case unsupportedErr:
			st.status = "unsupported:" + x.msg + " in " + e.where(st)
		case boundExceeded:
			st.status = "bound:" + x.msg
		case infeasiblePath:
			st.status = "infeasible"
		default:
			fmt.Fprintf(os.Stderr, "ENGINE PANIC at %s: %v\n%s\n", e.where(st), r, debug.Stack())
			st.status = fmt.Sprintf("engine-error:%v at %s", r, e.where(st))
		}
	}()
	e.exec(st)
	return nil
}

func (e *Engine) where(st *State) string {
	if len(st.frames) == 0 {
		return "<no frame>"
	}
	fr := st.top()
	pos := ""
	if fr.ip < len(fr.block.Instrs) {
		p := e.prog.Fset.Position(fr.block.Instrs[fr.ip].Pos())
		if p.IsValid() {
			pos = fmt.Sprintf(" (%s:%d)", shortFile(p.Filename), p.Line)
		}
	}
	return fr.fn.String() + pos
}

func shortFile(f string) string {
	if i := strings.LastIndexByte(f, '/'); i >= 0 {
		return f[i+1:]
	}
	return f
}

// probe checks feasibility of pc ∧ c; returns a model when one is available.
func (e *Engine) probe(st *State, c *Term) (bool, map[string]uint64) {
	if c.IsFalse() {
		return false, nil
	}
	if st.model != nil && e.ts.Eval(c, st.model, map[int]uint64{}) != 0 {
		e.sol.stats.ModelReuse++
		return true, st.model
	}
	res, m := e.modelFor(st, c)
	if res == Unsat {
		return false, nil
	}
	if res == Sat && m != nil {
		if st.model == nil {
			st.model = m
		}
		return true, m
	}
	return true, nil
}

func (e *Engine) doFork(st *State, fq forkReq) []*State {
	var out []*State
	for _, alt := range fq.alts {
		c := e.ts.And(alt.conds...)
		ok, m := e.probe(st, c)
		if !ok {
			continue
		}
		ch := st.clone()
		for _, cc := range alt.conds {
			if !cc.IsTrue() {
				ch.pc = append(ch.pc, cc)
			}
		}
		for k, v := range alt.binds {
			ch.bind[k] = v
		}
		ch.model = m
		out = append(out, ch)
	}
	if len(out) == 0 {
		st.status = "infeasible"
		return nil
	}
	if len(out) == 1 {
		// no real fork: continue in place
		*st = *out[0]
		return nil
	}
	e.res.PathStatus["forks"]++
	return out
}

// siteOf names a panic site independent of line numbers.
func (e *Engine) siteOf(st *State, p goPanic) string {
	fn := "<none>"
	// innermost non-harness frame names the site
	for i := len(st.frames) - 1; i >= 0; i-- {
		f := st.frames[i].fn
		fn = f.String()
		break
	}
	return p.site + " in " + fn
}

func (e *Engine) handleGoPanic(st *State, p goPanic) {
	site := e.siteOf(st, p)
	// unwind to the nearest catching frame
	for i := len(st.frames) - 1; i >= 0; i-- {
		if st.frames[i].catch == "vpanics" {
			st.frames = st.frames[:i]
			e.deliver(st, e.ts.True)
			return
		}
	}
	st.status = "panic:" + site
	// a feasible path that panics is a violated implicit obligation
	label := "no-panic@" + site
	s := e.res.stat(label, "panic")
	s.Checked++
	classes := e.known[label]
	e.ensureModel(st)
	res := Sat
	m := st.model
	if m == nil {
		res, m = e.sol.Check(st.pc, true)
	}
	switch res {
	case Sat:
		s.Sat++
		class := ""
		if len(classes) > 0 {
			class = classes[0] // for panics the class is the site itself
		}
		e.res.addCandidate(e, st, label, "panic", class, m, site)
	case Unsat:
		st.status = "infeasible"
		s.Checked--
	default:
		s.Unknown++
	}
}

func (e *Engine) handleBlocked(st *State, b blockedErr) {
	for i := len(st.frames) - 1; i >= 0; i-- {
		if st.frames[i].catch == "vblocked" {
			st.frames = st.frames[:i]
			e.deliver(st, e.ts.True)
			return
		}
	}
	st.status = "blocked:" + b.msg + " in " + e.where(st)
}

// runInits executes the init functions of whitelisted packages (dependencies first).
func (e *Engine) runInits(st *State) {
	if len(e.initPkgs) == 0 {
		return
	}
	var order []*ssa.Package
	seen := map[*ssa.Package]bool{}
	var visit func(p *ssa.Package)
	visit = func(p *ssa.Package) {
		if p == nil || seen[p] {
			return
		}
		seen[p] = true
		for _, imp := range p.Pkg.Imports() {
			visit(e.prog.Package(imp))
		}
		if e.initPkgs[p.Pkg.Path()] {
			order = append(order, p)
		}
	}
	visit(e.harnessPkg)
	for _, p := range order {
		initFn := p.Func("init")
		if initFn == nil || len(initFn.Blocks) == 0 {
			continue
		}
		e.pushFrame(st, initFn, nil, nil)
		base := len(st.frames) - 1
		for st.status == "" && len(st.frames) > base {
			// skip calls to other packages' init functions
			fr := st.top()
			if fr.fn == initFn && fr.ip < len(fr.block.Instrs) {
				if call, ok := fr.block.Instrs[fr.ip].(*ssa.Call); ok {
					if callee := call.Call.StaticCallee(); callee != nil && callee.Name() == "init" && callee.Pkg != p {
						fr.ip++
						continue
					}
					// initialisers that call into third-party or standard-library code (other than
					// errors.New) are skipped: the global keeps its zero value
					if callee := call.Call.StaticCallee(); callee != nil && callee.Pkg != nil {
						pp := callee.Pkg.Pkg.Path()
						if !strings.HasPrefix(pp, "github.com/relab/hotstuff") && callee.String() != "errors.New" && e.findModel(callee) == nil {
							if call.Type() != nil {
								if tup, ok := call.Type().(*types.Tuple); !ok || tup.Len() > 0 {
									e.set(fr, call, e.zero(call.Type()))
								}
							}
							e.modelsUsed["package init: call to "+callee.String()+" skipped (global left at zero value)"] = true
							fr.ip++
							continue
						}
					}
				}
			}
			if ch := e.step(st); ch != nil {
				st.status = "unsupported:fork during package init of " + p.Pkg.Path()
				return
			}
		}
		if st.status == "done" {
			st.status = ""
		}
		if st.status != "" {
			st.status = st.status + " (during init of " + p.Pkg.Path() + ")"
			return
		}
	}
}
