package main

// Solver back-ends: one persistent incremental `z3 -in` process for path pruning and most
// obligations, plus a one-shot parallel portfolio (z3, z3-new, cvc5, cvc5 --solve-bv-as-int=sum)
// for obligations containing hard arithmetic.

import (
	"bufio"
	"context"
	"fmt"
	"io"
	"os"
	"os/exec"
	"path/filepath"
	"sort"
	"strconv"
	"strings"
	"sync"
	"sync/atomic"
	"time"
)

type SatResult int

const (
	Unsat SatResult = iota
	Sat
	Unknown
)

func (r SatResult) String() string {
	switch r {
	case Unsat:
		return "unsat"
	case Sat:
		return "sat"
	}
	return "unknown"
}

type SolverStats struct {
	Queries     int
	CacheHits   int
	Sat         int
	Unsat       int
	Unknown     int
	TimeS       map[string]float64
	Portfolio   int
	Errors      int
	ModelReuse  int
	Restarts    int
	MaxQueryMs  float64
	BackendWins map[string]int
}

type Solver struct {
	ts       *TermStore
	cmd      *exec.Cmd
	in       io.WriteCloser
	out      *bufio.Reader
	defined  map[int]bool
	declared map[string]bool
	cache    map[string]cacheEnt
	stats    SolverStats
	timeout  time.Duration // per incremental query
	hardTO   time.Duration // per portfolio query
	workdir  string
	nfile    int
	logf     io.Writer
	useHard  bool
	inst     int64
	pipes    []*os.File
	lastTO   time.Duration
	cpu      int
	stack    []*Term // assertion stack mirrored in the solver process (one push level each)
}

var solverInst int64

type cacheEnt struct {
	res   SatResult
	model map[string]uint64
}

func NewSolver(ts *TermStore, workdir string) *Solver {
	s := &Solver{ts: ts, cache: map[string]cacheEnt{}, timeout: 20 * time.Second, hardTO: 60 * time.Second, workdir: workdir, useHard: true}
	s.inst = atomic.AddInt64(&solverInst, 1)
	s.cpu = -1
	s.stats.TimeS = map[string]float64{}
	s.stats.BackendWins = map[string]int{}
	return s
}

func (s *Solver) start() error {
	if s.cpu >= 0 {
		s.cmd = exec.Command("taskset", "-c", strconv.Itoa(s.cpu), incrementalSolver, "-in")
	} else {
		s.cmd = exec.Command(incrementalSolver, "-in")
	}
	if p := os.Getenv("VERIF_SMT_LOG"); p != "" && s.logf == nil {
		f, _ := os.Create(fmt.Sprintf("%s.%d", p, s.inst))
		s.logf = f
		fmt.Fprintf(f, "(set-option :global-declarations true)\n")
	}
	// plain blocking pipes: Go's netpoller adds ~5 ms per round trip on exec pipes
	ir, iw, err := os.Pipe()
	if err != nil {
		return err
	}
	or, ow, err := os.Pipe()
	if err != nil {
		return err
	}
	or.Fd() // switches the descriptor to blocking mode
	iw.Fd()
	s.cmd.Stdin = ir
	s.cmd.Stdout = ow
	s.cmd.Stderr = os.Stderr
	s.in = iw
	s.out = bufio.NewReaderSize(or, 1<<16)
	s.pipes = []*os.File{ir, ow, or}
	s.defined = map[int]bool{}
	s.declared = map[string]bool{}
	if err := s.cmd.Start(); err != nil {
		return err
	}
	ir.Close()
	ow.Close()
	fmt.Fprintf(s.in, "(set-option :print-success false)\n(set-option :global-declarations true)\n(set-option :timeout %d)\n", s.timeout.Milliseconds())
	s.stack = nil
	s.lastTO = s.timeout
	return nil
}

func (s *Solver) Close() {
	if s.cmd != nil {
		io.WriteString(s.in, "(exit)\n")
		s.in.Close()
		done := make(chan struct{})
		go func() { s.cmd.Wait(); close(done) }()
		select {
		case <-done:
		case <-time.After(2 * time.Second):
			s.cmd.Process.Kill()
			<-done
		}
		for _, p := range s.pipes {
			p.Close()
		}
		s.cmd = nil
	}
}

func (s *Solver) restart() {
	s.Close()
	s.stats.Restarts++
}

// define emits base-level definitions for t and its sub-terms; returns the name of t.
func (s *Solver) define(t *Term, sb *strings.Builder) string {
	switch t.op {
	case OpConst:
		return constStr(t)
	case OpVar:
		n := smtName(t.name)
		if !s.declared[t.name] {
			s.declared[t.name] = true
			fmt.Fprintf(sb, "(declare-const %s %s)\n", n, sortStr(t.w))
		}
		return n
	}
	n := "t" + strconv.Itoa(t.id)
	if s.defined[t.id] {
		return n
	}
	// iterative post-order to avoid deep recursion
	type fr struct {
		t *Term
		i int
	}
	stack := []fr{{t, 0}}
	for len(stack) > 0 {
		f := &stack[len(stack)-1]
		if f.i < len(f.t.args) {
			a := f.t.args[f.i]
			f.i++
			if a.op == OpConst {
				continue
			}
			if a.op == OpVar {
				if !s.declared[a.name] {
					s.declared[a.name] = true
					fmt.Fprintf(sb, "(declare-const %s %s)\n", smtName(a.name), sortStr(a.w))
				}
				continue
			}
			if !s.defined[a.id] {
				stack = append(stack, fr{a, 0})
			}
			continue
		}
		cur := f.t
		stack = stack[:len(stack)-1]
		if s.defined[cur.id] {
			continue
		}
		as := make([]string, len(cur.args))
		for i, a := range cur.args {
			switch a.op {
			case OpConst:
				as[i] = constStr(a)
			case OpVar:
				as[i] = smtName(a.name)
			default:
				as[i] = "t" + strconv.Itoa(a.id)
			}
		}
		fmt.Fprintf(sb, "(define-fun t%d () %s %s)\n", cur.id, sortStr(cur.w), smtApp(cur, as))
		s.defined[cur.id] = true
	}
	return n
}

func keyOf(asserts []*Term) string {
	ids := make([]int, len(asserts))
	for i, a := range asserts {
		ids[i] = a.id
	}
	sort.Ints(ids)
	var sb strings.Builder
	for _, id := range ids {
		sb.WriteString(strconv.Itoa(id))
		sb.WriteByte(',')
	}
	return sb.String()
}

// Check decides the conjunction of asserts. If wantModel and the result is sat, a model for the
// variables of the asserts is returned.
func (s *Solver) Check(asserts []*Term, wantModel bool) (SatResult, map[string]uint64) {
	// trivial cases
	var as []*Term
	for _, a := range asserts {
		if a.IsFalse() {
			return Unsat, nil
		}
		if !a.IsTrue() {
			as = append(as, a)
		}
	}
	if len(as) == 0 {
		return Sat, map[string]uint64{}
	}
	k := keyOf(as)
	if e, ok := s.cache[k]; ok && (!wantModel || e.res != Sat || e.model != nil) {
		s.stats.CacheHits++
		return e.res, e.model
	}
	s.stats.Queries++
	t0 := time.Now()
	res, model := s.checkIncremental(as, wantModel)
	if res == Unknown && s.useHard {
		res, model = s.checkPortfolio(as, wantModel)
	}
	ms := float64(time.Since(t0).Microseconds()) / 1000
	if ms > s.stats.MaxQueryMs {
		s.stats.MaxQueryMs = ms
	}
	switch res {
	case Sat:
		s.stats.Sat++
	case Unsat:
		s.stats.Unsat++
	default:
		s.stats.Unknown++
	}
	s.cache[k] = cacheEnt{res, model}
	return res, model
}

func (s *Solver) checkIncremental(as []*Term, wantModel bool) (SatResult, map[string]uint64) {
	div, fp := s.ts.HasHardArith(as)
	if (fp || div) && s.useHard {
		// FP kernels and division by non-power-of-two constants stall the incremental
		// bit-blaster (and a timeout inside the incremental process risks leaving its assertion
		// stack out of step): go to the portfolio directly
		return Unknown, nil
	}
	to := s.timeout
	if s.cmd == nil {
		if err := s.start(); err != nil {
			fmt.Fprintln(os.Stderr, "solver start failed:", err)
			s.stats.Errors++
			return Unknown, nil
		}
	}
	t0 := time.Now()
	defer func() { s.stats.TimeS[incrementalSolver+"-incremental"] += time.Since(t0).Seconds() }()
	var sb strings.Builder
	common := 0
	for common < len(s.stack) && common < len(as) && s.stack[common] == as[common] {
		common++
	}
	if n := len(s.stack) - common; n > 0 {
		fmt.Fprintf(&sb, "(pop %d)\n", n)
	}
	s.stack = s.stack[:common]
	if to != s.lastTO {
		fmt.Fprintf(&sb, "(set-option :timeout %d)\n", to.Milliseconds())
		s.lastTO = to
	}
	for _, a := range as[common:] {
		n := s.define(a, &sb)
		sb.WriteString("(push)\n(assert " + n + ")\n")
		s.stack = append(s.stack, a)
	}
	sb.WriteString("(check-sat)\n(echo \"@@cs\")\n")
	if s.logf != nil {
		io.WriteString(s.logf, sb.String())
	}
	if _, err := io.WriteString(s.in, sb.String()); err != nil {
		s.restart()
		s.stats.Errors++
		return Unknown, nil
	}
	lines, err := s.readUntil("@@cs", to+10*time.Second)
	if err != nil {
		s.restart()
		s.stats.Errors++
		return Unknown, nil
	}
	res := Unknown
	bad := false
	for _, l := range lines {
		l = strings.TrimSpace(l)
		switch {
		case l == "sat":
			res = Sat
		case l == "unsat":
			res = Unsat
		case l == "unknown":
			res = Unknown
		case strings.HasPrefix(l, "(error"):
			bad = true
			fmt.Fprintln(os.Stderr, "solver error:", l)
		}
	}
	if bad {
		// an error (e.g. "push canceled" when a timeout fires between commands) can leave the
		// assertion stack of the process out of step with ours: start a fresh process
		s.stats.Errors++
		s.restart()
		return Unknown, nil
	}
	if res == Unknown {
		// timed out: do not trust the process state any further
		s.restart()
		return Unknown, nil
	}
	var model map[string]uint64
	if res == Sat && wantModel {
		vs := s.ts.VarsOf(as)
		if len(vs) == 0 {
			model = map[string]uint64{}
		} else {
			var q strings.Builder
			q.WriteString("(get-value (")
			for _, v := range vs {
				q.WriteString(smtName(v.name) + " ")
			}
			q.WriteString("))\n(echo \"@@gv\")\n")
			if s.logf != nil {
				io.WriteString(s.logf, q.String())
			}
			io.WriteString(s.in, q.String())
			ml, err := s.readUntil("@@gv", 30*time.Second)
			if err != nil {
				s.restart()
				s.stats.Errors++
				return Unknown, nil
			}
			model = parseModel(strings.Join(ml, "\n"))
		}
	}
	return res, model
}

func (s *Solver) readUntil(marker string, to time.Duration) ([]string, error) {
	// synchronous read; a watchdog timer kills the solver process if it overruns, which makes
	// the read fail and triggers a restart
	proc := s.cmd.Process
	timer := time.AfterFunc(to, func() { proc.Kill() })
	defer timer.Stop()
	var lines []string
	for {
		l, err := s.out.ReadString('\n')
		if err != nil {
			return lines, err
		}
		l = strings.TrimRight(l, "\n")
		if strings.Trim(l, "\"") == marker {
			return lines, nil
		}
		lines = append(lines, l)
	}
}

type backend struct {
	name string
	argv []string
}

var portfolio = []backend{
	{"cvc5-bvint", []string{"cvc5", "--solve-bv-as-int=sum", "--produce-models"}},
	{"z3", []string{"z3"}},
	{"z3-new", []string{"z3-new"}},
	{"cvc5", []string{"cvc5", "--produce-models"}},
}

func (s *Solver) checkPortfolio(as []*Term, wantModel bool) (SatResult, map[string]uint64) {
	s.stats.Portfolio++
	script := s.ts.Script(as, true)
	_, fp := s.ts.HasHardArith(as)
	s.nfile++
	fn := filepath.Join(s.workdir, fmt.Sprintf("q%d_%d_%d.smt2", os.Getpid(), s.inst, s.nfile))
	if err := os.WriteFile(fn, []byte(script), 0o644); err != nil {
		s.stats.Errors++
		return Unknown, nil
	}
	if os.Getenv("VERIF_KEEP_SMT") == "" {
		defer os.Remove(fn)
	}
	ctx, cancel := context.WithTimeout(context.Background(), s.hardTO)
	defer cancel()
	type out struct {
		name  string
		res   SatResult
		model map[string]uint64
		dur   time.Duration
	}
	ch := make(chan out, len(portfolio))
	var wg sync.WaitGroup
	n := 0
	for _, b := range portfolio {
		if fp && b.name == "cvc5-bvint" {
			continue
		}
		n++
		wg.Add(1)
		go func(b backend) {
			defer wg.Done()
			t0 := time.Now()
			argv := append(append([]string{}, b.argv[1:]...), fn)
			c := exec.CommandContext(ctx, b.argv[0], argv...)
			o, _ := c.Output()
			txt := string(o)
			if os.Getenv("VERIF_KEEP_SMT") != "" {
				fmt.Fprintf(os.Stderr, "[%s] %s -> %q\n", b.name, fn, firstLines(txt, 3))
			}
			res := Unknown
			lines := strings.SplitN(txt, "\n", 2)
			if strings.HasPrefix(strings.TrimSpace(txt), "(error") {
				res = Unknown // an assertion was rejected: the answer that follows is not trusted
			} else if len(lines) > 0 {
				switch strings.TrimSpace(lines[0]) {
				case "sat":
					res = Sat
				case "unsat":
					res = Unsat
				}
			}
			var model map[string]uint64
			if res == Sat && len(lines) > 1 {
				model = parseModel(lines[1])
			}
			ch <- out{b.name, res, model, time.Since(t0)}
		}(b)
	}
	res := Unknown
	var model map[string]uint64
	got := 0
	for got < n {
		o := <-ch
		got++
		s.stats.TimeS[o.name] += o.dur.Seconds()
		if o.res != Unknown {
			res, model = o.res, o.model
			s.stats.BackendWins[o.name]++
			cancel()
			break
		}
	}
	go func() { wg.Wait() }()
	if res == Sat && model != nil {
		// validate the model with our own evaluator: guards against solver or printer bugs
		memo := map[int]uint64{}
		for _, a := range as {
			if s.ts.Eval(a, model, memo) == 0 {
				fmt.Fprintln(os.Stderr, "portfolio model does not satisfy assertion; treating as unknown")
				s.stats.Errors++
				return Unknown, nil
			}
		}
	}
	return res, model
}

// ---- model parsing ----

type sexp struct {
	atom string
	list []*sexp
}

func parseSexps(s string) []*sexp {
	var stack [][]*sexp
	cur := []*sexp{}
	i := 0
	for i < len(s) {
		c := s[i]
		switch {
		case c == '(':
			stack = append(stack, cur)
			cur = []*sexp{}
			i++
		case c == ')':
			l := &sexp{list: cur}
			if len(stack) == 0 {
				return cur
			}
			cur = stack[len(stack)-1]
			stack = stack[:len(stack)-1]
			cur = append(cur, l)
			i++
		case c == ' ' || c == '\n' || c == '\t' || c == '\r':
			i++
		case c == '|':
			j := strings.IndexByte(s[i+1:], '|')
			if j < 0 {
				j = len(s) - i - 1
			}
			cur = append(cur, &sexp{atom: s[i+1 : i+1+j]})
			i += j + 2
		case c == '"':
			j := strings.IndexByte(s[i+1:], '"')
			if j < 0 {
				j = len(s) - i - 1
			}
			cur = append(cur, &sexp{atom: s[i : i+j+2]})
			i += j + 2
		default:
			j := i
			for j < len(s) && !strings.ContainsRune("() \n\t\r", rune(s[j])) {
				j++
			}
			cur = append(cur, &sexp{atom: s[i:j]})
			i = j
		}
	}
	return cur
}

func sexpValue(e *sexp) (uint64, bool) {
	if e.list == nil {
		a := e.atom
		switch {
		case a == "true":
			return 1, true
		case a == "false":
			return 0, true
		case strings.HasPrefix(a, "#x"):
			v, err := strconv.ParseUint(a[2:], 16, 64)
			return v, err == nil
		case strings.HasPrefix(a, "#b"):
			v, err := strconv.ParseUint(a[2:], 2, 64)
			return v, err == nil
		}
		return 0, false
	}
	l := e.list
	if len(l) == 3 && l[0].atom == "_" && strings.HasPrefix(l[1].atom, "bv") {
		v, err := strconv.ParseUint(l[1].atom[2:], 10, 64)
		return v, err == nil
	}
	if len(l) == 4 && l[0].atom == "fp" {
		s, ok1 := sexpValue(l[1])
		e2, ok2 := sexpValue(l[2])
		m, ok3 := sexpValue(l[3])
		return s<<63 | e2<<52 | m, ok1 && ok2 && ok3
	}
	if len(l) == 4 && l[0].atom == "_" {
		switch l[1].atom {
		case "+zero":
			return 0, true
		case "-zero":
			return 1 << 63, true
		case "+oo":
			return 0x7ff << 52, true
		case "-oo":
			return 0xfff << 52, true
		case "NaN":
			return 0x7ff8 << 48, true
		}
	}
	return 0, false
}

func parseModel(txt string) map[string]uint64 {
	m := map[string]uint64{}
	for _, top := range parseSexps(txt) {
		if top.list == nil {
			continue
		}
		for _, pair := range top.list {
			if pair.list == nil || len(pair.list) != 2 {
				continue
			}
			name := pair.list[0].atom
			if v, ok := sexpValue(pair.list[1]); ok {
				m[name] = v
			}
		}
	}
	return m
}

// incrementalSolver is the binary used for the persistent incremental process. z3 5.1 (z3-new)
// handles the push/pop stream about five times faster than z3 4.8.12 on this workload.
var incrementalSolver = func() string {
	if p := os.Getenv("VERIF_INCR_SOLVER"); p != "" {
		return p
	}
	if _, err := exec.LookPath("z3-new"); err == nil {
		return "z3-new"
	}
	return "z3"
}()
