package main

import "testing"

func TestIteLeafDistribution(t *testing.T) {
	ts := NewTermStore()
	x := ts.Var("x", 64)
	sel := ts.Ite(ts.Eq(x, ts.BV(0, 64)), ts.BV(0, 64), ts.Ite(ts.Eq(x, ts.BV(1, 64)), ts.BV(1, 64), ts.Ite(ts.Eq(x, ts.BV(2, 64)), ts.BV(5, 64), ts.BV(8, 64))))
	ref := func(v uint64) uint64 {
		switch v {
		case 0:
			return 0
		case 1:
			return 1
		case 2:
			return 5
		}
		return 8
	}
	ops := []Op{OpAdd, OpSub, OpMul, OpUDiv, OpURem, OpSDiv, OpSRem, OpShl, OpLShr, OpAShr, OpAnd, OpOr, OpXor, OpULt, OpULe, OpSLt, OpSLe}
	for _, op := range ops {
		for _, k := range []uint64{1, 3, 4, ^uint64(0), 0} {
			for side := 0; side < 2; side++ {
				var term *Term
				kk := ts.BV(k, 64)
				if side == 0 {
					term = ts.Bin(op, sel, kk)
				} else {
					term = ts.Bin(op, kk, sel)
				}
				for v := uint64(0); v < 4; v++ {
					got := ts.Eval(term, map[string]uint64{"x": v}, map[int]uint64{})
					var want uint64
					rw := 64
					switch op {
					case OpULt, OpULe, OpSLt, OpSLe:
						rw = SortBool
					}
					if side == 0 {
						want = evalOp(op, rw, 0, 0, []uint64{ref(v), k}, []int{64, 64})
					} else {
						want = evalOp(op, rw, 0, 0, []uint64{k, ref(v)}, []int{64, 64})
					}
					if got != want {
						t.Errorf("op %d k %d side %d x %d: got %d want %d", op, k, side, v, got, want)
					}
				}
			}
		}
	}
	// nested: ((sel - 1) sdiv 4) > 0
	one := ts.BV(1, 64)
	p := ts.Bin(OpSDiv, ts.Bin(OpSub, sel, one), ts.BV(4, 64))
	c := ts.Bin(OpSLt, ts.BV(0, 64), p)
	for v := uint64(0); v < 4; v++ {
		got := ts.Eval(c, map[string]uint64{"x": v}, map[int]uint64{})
		want := uint64(0)
		if (int64(ref(v))-1)/4 > 0 {
			want = 1
		}
		if got != want {
			t.Errorf("nested x=%d got %d want %d (%s)", v, got, want, ts.Script([]*Term{c}, false))
		}
	}
}
