package main

// Value representation: concrete shapes, symbolic scalar leaves (see DESIGN.md §2.1).

import (
	"fmt"
	"go/types"
	"strings"

	"golang.org/x/tools/go/ssa"
)

type Value interface{}

// PathEl selects a struct field or array element. sym != nil means a symbolic (64-bit) index.
type PathEl struct {
	idx int
	sym *Term
}

// PtrV is a pointer to a location inside heap object obj (obj == 0: nil pointer).
type PtrV struct {
	obj  int
	path []PathEl
}

type StructV struct{ f []Value }
type ArrayV struct{ e []Value }

// SliceV: elements live in the ArrayV found at (obj,path); element i is array index off+i.
type SliceV struct {
	obj      int
	path     []PathEl
	off      int
	len, cap int
}

type StringV struct {
	b      []*Term // BV8 each
	opaque bool    // content not modelled (formatting output)
}

type IfaceV struct {
	typ types.Type // nil: nil interface
	v   Value
}

type MapV struct{ obj int } // 0: nil map
type ChanV struct{ obj int }

type FuncV struct {
	fn      *ssa.Function
	bind    []Value
	builtin string
}

type TupleV struct{ e []Value }

// IterV is a range iterator over a map snapshot or a string.
type IterV struct{ obj int }

// heap-only objects
type MapObj struct {
	keys []Value
	vals []Value
}
type ChanObj struct {
	buf    []Value
	cap    int
	closed bool
}
type IterObj struct {
	mapObj int
	keys   []Value
	pos    int
	str    *StringV
}

// OpaqueV stands for an environment object whose content is not modelled (context, timers, ...).
type OpaqueV struct{ what string }

func (p PtrV) isNil() bool { return p.obj == 0 }

func pathStr(p []PathEl) string {
	var sb strings.Builder
	for _, e := range p {
		if e.sym != nil {
			fmt.Fprintf(&sb, "[t%d]", e.sym.id)
		} else {
			fmt.Fprintf(&sb, ".%d", e.idx)
		}
	}
	return sb.String()
}

func appendPath(p []PathEl, e PathEl) []PathEl {
	n := make([]PathEl, len(p)+1)
	copy(n, p)
	n[len(p)] = e
	return n
}

func samePath(a, b []PathEl) bool {
	if len(a) != len(b) {
		return false
	}
	for i := range a {
		if a[i].sym != b[i].sym || (a[i].sym == nil && a[i].idx != b[i].idx) {
			return false
		}
	}
	return true
}

func intWidth(t types.Type) (w int, signed bool, ok bool) {
	b, isb := t.Underlying().(*types.Basic)
	if !isb {
		return 0, false, false
	}
	switch b.Kind() {
	case types.Int8:
		return 8, true, true
	case types.Int16:
		return 16, true, true
	case types.Int32, types.UntypedRune:
		return 32, true, true
	case types.Int64, types.Int, types.UntypedInt:
		return 64, true, true
	case types.Uint8:
		return 8, false, true
	case types.Uint16:
		return 16, false, true
	case types.Uint32:
		return 32, false, true
	case types.Uint64, types.Uint, types.Uintptr:
		return 64, false, true
	}
	return 0, false, false
}

func isFloat(t types.Type) bool {
	b, ok := t.Underlying().(*types.Basic)
	return ok && (b.Kind() == types.Float64 || b.Kind() == types.Float32 || b.Kind() == types.UntypedFloat)
}

func isBool(t types.Type) bool {
	b, ok := t.Underlying().(*types.Basic)
	return ok && (b.Kind() == types.Bool || b.Kind() == types.UntypedBool)
}

func isString(t types.Type) bool {
	b, ok := t.Underlying().(*types.Basic)
	return ok && (b.Kind() == types.String || b.Kind() == types.UntypedString)
}

func (e *Engine) zero(t types.Type) Value {
	switch u := t.Underlying().(type) {
	case *types.Basic:
		if w, _, ok := intWidth(u); ok {
			return e.ts.BV(0, w)
		}
		if isBool(u) {
			return e.ts.False
		}
		if isFloat(u) {
			return e.ts.FP(0)
		}
		if isString(u) {
			return StringV{}
		}
		if u.Kind() == types.UnsafePointer {
			return PtrV{}
		}
		if u.Kind() == types.UntypedNil {
			return PtrV{}
		}
		panic(unsupported("zero value of basic type " + u.String()))
	case *types.Pointer:
		return PtrV{}
	case *types.Struct:
		f := make([]Value, u.NumFields())
		for i := range f {
			f[i] = e.zero(u.Field(i).Type())
		}
		return StructV{f}
	case *types.Array:
		n := int(u.Len())
		el := make([]Value, n)
		z := e.zero(u.Elem())
		for i := range el {
			el[i] = z
		}
		return ArrayV{el}
	case *types.Slice:
		return SliceV{}
	case *types.Map:
		return MapV{}
	case *types.Chan:
		return ChanV{}
	case *types.Interface:
		return IfaceV{}
	case *types.Signature:
		return FuncV{}
	case *types.Tuple:
		el := make([]Value, u.Len())
		for i := range el {
			el[i] = e.zero(u.At(i).Type())
		}
		return TupleV{el}
	}
	panic(unsupported("zero value of type " + t.String()))
}

// mergeValues builds ite(c, a, b) structurally; ok=false when shapes differ.
func (e *Engine) mergeValues(c *Term, a, b Value) (Value, bool) {
	if c.IsTrue() {
		return a, true
	}
	if c.IsFalse() {
		return b, true
	}
	switch x := a.(type) {
	case *Term:
		y, ok := b.(*Term)
		if !ok || x.w != y.w {
			return nil, false
		}
		return e.ts.Ite(c, x, y), true
	case StructV:
		y, ok := b.(StructV)
		if !ok || len(x.f) != len(y.f) {
			return nil, false
		}
		out := make([]Value, len(x.f))
		for i := range x.f {
			m, ok := e.mergeValues(c, x.f[i], y.f[i])
			if !ok {
				return nil, false
			}
			out[i] = m
		}
		return StructV{out}, true
	case ArrayV:
		y, ok := b.(ArrayV)
		if !ok || len(x.e) != len(y.e) {
			return nil, false
		}
		out := make([]Value, len(x.e))
		for i := range x.e {
			m, ok := e.mergeValues(c, x.e[i], y.e[i])
			if !ok {
				return nil, false
			}
			out[i] = m
		}
		return ArrayV{out}, true
	case TupleV:
		y, ok := b.(TupleV)
		if !ok || len(x.e) != len(y.e) {
			return nil, false
		}
		out := make([]Value, len(x.e))
		for i := range x.e {
			m, ok := e.mergeValues(c, x.e[i], y.e[i])
			if !ok {
				return nil, false
			}
			out[i] = m
		}
		return TupleV{out}, true
	case PtrV:
		y, ok := b.(PtrV)
		if ok && x.obj == y.obj && samePath(x.path, y.path) {
			return x, true
		}
		return nil, false
	case SliceV:
		y, ok := b.(SliceV)
		if ok && x.obj == y.obj && samePath(x.path, y.path) && x.off == y.off && x.len == y.len && x.cap == y.cap {
			return x, true
		}
		return nil, false
	case StringV:
		y, ok := b.(StringV)
		if !ok || len(x.b) != len(y.b) || x.opaque || y.opaque {
			return nil, false
		}
		out := make([]*Term, len(x.b))
		for i := range out {
			out[i] = e.ts.Ite(c, x.b[i], y.b[i])
		}
		return StringV{b: out}, true
	case IfaceV:
		y, ok := b.(IfaceV)
		if !ok {
			return nil, false
		}
		if x.typ == nil && y.typ == nil {
			return x, true
		}
		// opaque errors carry a symbolic "is non-nil" flag, so that nil and non-nil errors merge
		if (x.typ == e.opaqueErrT || x.typ == nil) && (y.typ == e.opaqueErrT || y.typ == nil) {
			fx, fy := e.ts.False, e.ts.False
			if x.typ != nil {
				fx = x.v.(*Term)
			}
			if y.typ != nil {
				fy = y.v.(*Term)
			}
			return e.opaqueErr(e.ts.Ite(c, fx, fy)), true
		}
		if x.typ == nil || y.typ == nil || !types.Identical(x.typ, y.typ) {
			return nil, false
		}
		m, ok := e.mergeValues(c, x.v, y.v)
		if !ok {
			return nil, false
		}
		return IfaceV{x.typ, m}, true
	case MapV:
		y, ok := b.(MapV)
		if ok && x.obj == y.obj {
			return x, true
		}
		return nil, false
	case ChanV:
		y, ok := b.(ChanV)
		if ok && x.obj == y.obj {
			return x, true
		}
		return nil, false
	case FuncV:
		y, ok := b.(FuncV)
		if ok && x.fn == y.fn && x.builtin == y.builtin && len(x.bind) == 0 && len(y.bind) == 0 && x.builtin != "ctxcancel" {
			return x, true
		}
		return nil, false
	case OpaqueV:
		if _, ok := b.(OpaqueV); ok {
			return x, true
		}
		return nil, false
	}
	return nil, false
}

// eqValue returns a Boolean term for a == b (Go == semantics on comparable values).
func (e *Engine) eqValue(a, b Value) *Term {
	switch x := a.(type) {
	case *Term:
		y, ok := b.(*Term)
		if !ok {
			panic(unsupported(fmt.Sprintf("eq: scalar vs %T", b)))
		}
		return e.ts.Eq(x, y)
	case StructV:
		y := b.(StructV)
		cs := make([]*Term, len(x.f))
		for i := range x.f {
			cs[i] = e.eqValue(x.f[i], y.f[i])
		}
		return e.ts.And(cs...)
	case ArrayV:
		y := b.(ArrayV)
		cs := make([]*Term, len(x.e))
		for i := range x.e {
			cs[i] = e.eqValue(x.e[i], y.e[i])
		}
		return e.ts.And(cs...)
	case PtrV:
		y, ok := b.(PtrV)
		if !ok {
			panic(unsupported(fmt.Sprintf("eq: pointer vs %T", b)))
		}
		if x.obj != y.obj || len(x.path) != len(y.path) {
			return e.ts.False
		}
		cs := []*Term{}
		for i := range x.path {
			p, q := x.path[i], y.path[i]
			if p.sym == nil && q.sym == nil {
				if p.idx != q.idx {
					return e.ts.False
				}
				continue
			}
			pt, qt := p.sym, q.sym
			if pt == nil {
				pt = e.ts.BV(uint64(p.idx), 64)
			}
			if qt == nil {
				qt = e.ts.BV(uint64(q.idx), 64)
			}
			cs = append(cs, e.ts.Eq(pt, qt))
		}
		return e.ts.And(cs...)
	case StringV:
		y := b.(StringV)
		if x.opaque || y.opaque {
			panic(unsupported("comparison of an unmodelled (formatted) string"))
		}
		if len(x.b) != len(y.b) {
			return e.ts.False
		}
		cs := make([]*Term, len(x.b))
		for i := range x.b {
			cs[i] = e.ts.Eq(x.b[i], y.b[i])
		}
		return e.ts.And(cs...)
	case IfaceV:
		y, ok := b.(IfaceV)
		if !ok {
			// comparing interface with concrete value of some type: not produced by go/ssa
			panic(unsupported(fmt.Sprintf("eq: interface vs %T", b)))
		}
		if x.typ == e.opaqueErrT || y.typ == e.opaqueErrT {
			// equal only if both are nil (distinct opaque errors are distinct objects)
			nx, ny := e.ts.Bool(x.typ == nil), e.ts.Bool(y.typ == nil)
			if x.typ == e.opaqueErrT {
				nx = e.ts.Not(x.v.(*Term))
			}
			if y.typ == e.opaqueErrT {
				ny = e.ts.Not(y.v.(*Term))
			}
			return e.ts.And(nx, ny)
		}
		if x.typ == nil || y.typ == nil {
			return e.ts.Bool(x.typ == nil && y.typ == nil)
		}
		if !types.Identical(x.typ, y.typ) {
			return e.ts.False
		}
		if !types.Comparable(x.typ) {
			panic(goPanic{site: "runtime error: comparing uncomparable type " + x.typ.String()})
		}
		return e.eqValue(x.v, y.v)
	case MapV:
		y := b.(MapV)
		return e.ts.Bool(x.obj == y.obj)
	case ChanV:
		y := b.(ChanV)
		return e.ts.Bool(x.obj == y.obj)
	case SliceV:
		y := b.(SliceV)
		// only comparison with nil is legal
		return e.ts.Bool(x.obj == 0 && y.obj == 0)
	case FuncV:
		y := b.(FuncV)
		return e.ts.Bool(x.fn == nil && x.builtin == "" && y.fn == nil && y.builtin == "")
	case OpaqueV:
		_, ok := b.(OpaqueV)
		return e.ts.Bool(ok)
	case TypeTokV:
		y, ok := b.(TypeTokV)
		return e.ts.Bool(ok && types.Identical(x.t, y.t))
	}
	panic(unsupported(fmt.Sprintf("eq on %T", a)))
}

// TypeTokV models a reflect.Type value for a concrete Go type.
type TypeTokV struct{ t types.Type }

type unsupportedErr struct{ msg string }

func unsupported(msg string) unsupportedErr { return unsupportedErr{msg} }

// goPanic is a Go runtime panic (or explicit panic) of the program under test.
type goPanic struct {
	site  string
	value Value
}

func strConst(ts *TermStore, s string) StringV {
	b := make([]*Term, len(s))
	for i := 0; i < len(s); i++ {
		b[i] = ts.BV(uint64(s[i]), 8)
	}
	return StringV{b: b}
}

// concreteString returns the Go string when all bytes are constant.
func concreteString(s StringV) (string, bool) {
	if s.opaque {
		return "", false
	}
	bs := make([]byte, len(s.b))
	for i, t := range s.b {
		if !t.IsConst() {
			return "", false
		}
		bs[i] = byte(t.cval)
	}
	return string(bs), true
}

// opaqueErr builds an error value whose text is not modelled; nonNil says whether it is non-nil.
func (e *Engine) opaqueErr(nonNil *Term) IfaceV {
	if nonNil.IsFalse() {
		return IfaceV{}
	}
	return IfaceV{typ: e.opaqueErrT, v: nonNil}
}

// concIface makes the nil-ness of a maybe-nil opaque error concrete on this path (may fork).
func (e *Engine) concIface(st *State, iv IfaceV) IfaceV {
	if iv.typ != e.opaqueErrT {
		return iv
	}
	f := iv.v.(*Term)
	if f.IsTrue() {
		return iv
	}
	if e.concBool(st, f) {
		return IfaceV{typ: e.opaqueErrT, v: e.ts.True}
	}
	return IfaceV{}
}
