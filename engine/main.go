package main

import (
	"encoding/json"
	"flag"
	"fmt"
	"go/types"
	"os"
	"path/filepath"
	"runtime"
	"runtime/pprof"
	"sort"
	"strconv"
	"strings"
	"sync"
	"time"

	"golang.org/x/tools/go/packages"
	"golang.org/x/tools/go/ssa"
	"golang.org/x/tools/go/ssa/ssautil"
)

type HarnessSpec struct {
	Name           string             `json:"name"`
	Pkg            string             `json:"pkg"`
	Dir            string             `json:"dir"`
	Entry          string             `json:"entry"`
	Grid           map[string][][]int `json:"grid"`
	GridProduct    map[string][][]int `json:"grid_product"`
	Unwind         int                `json:"unwind"`
	MaxFork        int                `json:"max_fork"`
	MaxSteps       int                `json:"max_steps"`
	MaxPaths       int                `json:"max_paths"`
	Redirects      map[string]string  `json:"redirects"`
	// ReplayAttempts > 1: the native run of this harness is not deterministic (Go's select picks at
	// random among ready cases); an unconfirmed counterexample is replayed up to this many times.
	ReplayAttempts int                `json:"replay_attempts"`
	Init           []string           `json:"init"`
	Bounds         map[string]string  `json:"bounds"`
	BudgetS        map[string]int     `json:"budget_s"`
	Covers         []string           `json:"covers"` // cover labels that must be reached (vacuity)
	Tiers          []string           `json:"tiers"`  // if set: run only in these tiers
	SolverTimeoutS int                `json:"solver_timeout_s"`
}

type Spec struct {
	Property    string        `json:"property"`
	Explanation string        `json:"explanation"`
	Files       []string      `json:"files"`
	Harnesses   []HarnessSpec `json:"harnesses"`
	Assumptions []string      `json:"assumptions"`
	Outside     []string      `json:"outside"`
}

type KnownFinding struct {
	Property   string `json:"property"`
	ID         string `json:"id"`
	Obligation string `json:"obligation"`
	Class      string `json:"class"`
	What       string `json:"what"`
}

type KnownFile struct {
	Findings []KnownFinding `json:"findings"`
	Fixed    []string       `json:"fixed"`
}

var verifRoot = "/verif"
var pinnedVector map[string]uint64

func main() {
	if len(os.Args) < 2 {
		fmt.Fprintln(os.Stderr, "usage: vcheck run <ID> [--tier quick|thorough] [--repo DIR] | vcheck replay <dir>")
		os.Exit(3)
	}
	if r := os.Getenv("VERIF_ROOT"); r != "" {
		verifRoot = r
	} else if exe, err := os.Executable(); err == nil {
		// bin/vcheck lives in <root>/bin
		verifRoot = filepath.Dir(filepath.Dir(exe))
	}
	switch os.Args[1] {
	case "run":
		rc := cmdRun(os.Args[2:])
		pprof.StopCPUProfile()
		os.Exit(rc)
	case "replay":
		os.Exit(cmdReplay(os.Args[2:]))
	default:
		fmt.Fprintln(os.Stderr, "unknown command", os.Args[1])
		os.Exit(3)
	}
}

type job struct {
	h      *HarnessSpec
	params []int
	res    *RunResult
	stats  SolverStats
	fns    map[string]bool
	models map[string]bool
	wall   time.Duration
	err    string
}

type loaded struct {
	prog    *ssa.Program
	pkgs    []*packages.Package
	overlay map[string]string // repo path -> real file
	byPath  map[string]*packages.Package
}

func buildOverlay(spec *Spec, repo, workdir string) (map[string]string, error) {
	ov := map[string]string{}
	for _, f := range spec.Files {
		src := filepath.Join(verifRoot, "harness", f)
		if _, err := os.Stat(src); err != nil {
			return nil, fmt.Errorf("harness file missing: %s", src)
		}
		ov[filepath.Join(repo, f)] = src
	}
	return ov, nil
}

func pkgNameOfDir(repo, dir string) (string, error) {
	ents, err := os.ReadDir(filepath.Join(repo, dir))
	if err != nil {
		return "", err
	}
	for _, en := range ents {
		n := en.Name()
		if strings.HasSuffix(n, ".go") && !strings.HasSuffix(n, "_test.go") {
			data, err := os.ReadFile(filepath.Join(repo, dir, n))
			if err != nil {
				continue
			}
			for _, l := range strings.Split(string(data), "\n") {
				l = strings.TrimSpace(l)
				if strings.HasPrefix(l, "package ") {
					return strings.Fields(l)[1], nil
				}
			}
		}
	}
	return "", fmt.Errorf("no package clause found in %s", dir)
}

func loadProgram(spec *Spec, repo, workdir string) (*loaded, error) {
	ov, err := buildOverlay(spec, repo, workdir)
	if err != nil {
		return nil, err
	}
	// API file per entry package
	seenDir := map[string]bool{}
	var patterns []string
	for i := range spec.Harnesses {
		h := &spec.Harnesses[i]
		if seenDir[h.Dir] {
			continue
		}
		seenDir[h.Dir] = true
		name, err := pkgNameOfDir(repo, h.Dir)
		if err != nil {
			return nil, err
		}
		api := filepath.Join(workdir, "api_"+strings.ReplaceAll(h.Dir, "/", "_")+".go")
		if err := os.WriteFile(api, []byte(strings.Replace(apiSrc, "PKGNAME", name, 1)), 0o644); err != nil {
			return nil, err
		}
		ov[filepath.Join(repo, h.Dir, "zz_verif_api.go")] = api
		patterns = append(patterns, h.Pkg)
	}
	overlayBytes := map[string][]byte{}
	for k, v := range ov {
		b, err := os.ReadFile(v)
		if err != nil {
			return nil, err
		}
		overlayBytes[k] = b
	}
	cfg := &packages.Config{Mode: packages.LoadAllSyntax, Dir: repo, Overlay: overlayBytes, Env: goEnv()}
	pkgs, err := packages.Load(cfg, patterns...)
	if err != nil {
		return nil, fmt.Errorf("packages.Load: %v", err)
	}
	var errs []string
	packages.Visit(pkgs, nil, func(p *packages.Package) {
		for _, e := range p.Errors {
			errs = append(errs, e.Error())
		}
	})
	if len(errs) > 0 {
		if len(errs) > 10 {
			errs = errs[:10]
		}
		return nil, fmt.Errorf("type/load errors:\n  %s", strings.Join(errs, "\n  "))
	}
	prog, _ := ssautil.AllPackages(pkgs, ssa.InstantiateGenerics)
	prog.Build()
	l := &loaded{prog: prog, pkgs: pkgs, overlay: ov, byPath: map[string]*packages.Package{}}
	for _, p := range pkgs {
		l.byPath[p.PkgPath] = p
	}
	return l, nil
}

func findFunc(prog *ssa.Program, defaultPkg *ssa.Package, name string) *ssa.Function {
	if i := strings.LastIndex(name, "."); i > 0 && strings.Contains(name[:i], "/") {
		for _, p := range prog.AllPackages() {
			if p.Pkg.Path() == name[:i] {
				return p.Func(name[i+1:])
			}
		}
		return nil
	}
	return defaultPkg.Func(name)
}

func runJob(l *loaded, h *HarnessSpec, params []int, tier string, known map[string][]string, workdir string, trace bool, cpu int) *job {
	j := &job{h: h, params: params}
	defer pinThread(cpu)()
	t0 := time.Now()
	defer func() { j.wall = time.Since(t0) }()
	var spkg *ssa.Package
	for _, p := range l.prog.AllPackages() {
		if p.Pkg.Path() == h.Pkg {
			spkg = p
		}
	}
	if spkg == nil {
		j.err = "package not loaded: " + h.Pkg
		return j
	}
	entry := spkg.Func(h.Entry)
	if entry == nil {
		j.err = "entry function not found: " + h.Entry
		return j
	}
	ts := NewTermStore()
	sol := NewSolver(ts, workdir)
	sol.cpu = cpu
	if h.SolverTimeoutS > 0 {
		sol.hardTO = time.Duration(h.SolverTimeoutS) * time.Second
	}
	defer sol.Close()
	e := &Engine{prog: l.prog, ts: ts, sol: sol, maxFork: 64, maxUnwind: 64, maxSteps: 2000000, maxPaths: 200000,
		redirects: map[string]*ssa.Function{}, initPkgs: map[string]bool{}, known: known, trace: trace,
		fnsSeen: map[string]bool{}, modelsUsed: map[string]bool{}, harnessPkg: spkg, noIfConv: os.Getenv("VERIF_NO_IFCONV") != "", ifSites: map[siteKey]*siteStat{}}
	e.pinned = pinnedVector
	e.pinPartial = os.Getenv("VERIF_PIN_PARTIAL") != ""
	e.opaqueErrT = types.NewPointer(types.NewNamed(types.NewTypeName(0, nil, "opaqueError", nil), types.NewStruct(nil, nil), nil))
	if h.Unwind > 0 {
		e.maxUnwind = h.Unwind
	}
	if h.MaxFork > 0 {
		e.maxFork = h.MaxFork
	}
	if h.MaxSteps > 0 {
		e.maxSteps = h.MaxSteps
	}
	if h.MaxPaths > 0 {
		e.maxPaths = h.MaxPaths
	}
	for real, repl := range h.Redirects {
		f := findFunc(l.prog, spkg, repl)
		if f == nil {
			j.err = "redirect target not found: " + repl
			return j
		}
		e.redirects[real] = f
	}
	for _, p := range h.Init {
		e.initPkgs[p] = true
	}
	e.res = newRunResult()
	e.res.harness = h
	e.res.params = params
	var deadline time.Time
	if b := h.BudgetS[tier]; b > 0 {
		deadline = time.Now().Add(time.Duration(b) * time.Second)
	}
	e.explore(entry, params, deadline)
	j.res = e.res
	j.stats = sol.stats
	j.fns = e.fnsSeen
	j.models = e.modelsUsed
	return j
}

func slug(s string) string {
	var sb strings.Builder
	for _, c := range s {
		switch {
		case c >= 'a' && c <= 'z', c >= 'A' && c <= 'Z', c >= '0' && c <= '9', c == '-', c == '_':
			sb.WriteRune(c)
		default:
			sb.WriteByte('_')
		}
	}
	out := sb.String()
	if len(out) > 80 {
		out = out[:80]
	}
	return out
}

func cmdRun(args []string) int {
	fs := flag.NewFlagSet("run", flag.ExitOnError)
	tier := fs.String("tier", "", "quick|thorough")
	repo := fs.String("repo", "/repo", "repository root")
	jobsN := fs.Int("jobs", 0, "parallel workers")
	noNative := fs.Bool("no-native", false, "skip native replay and translator validation")
	only := fs.String("only", "", "run only the named harness")
	trace := fs.Bool("trace", false, "trace instructions")
	evidenceOut := fs.String("evidence", "", "evidence file (default <root>/evidence/<ID>.json)")
	cpuprof := fs.String("cpuprofile", "", "write CPU profile")
	pin := fs.String("pin", "", "JSON file {\"params\":[..],\"vector\":{..}}: run the selected harness once with all nondets pinned and print the trace")
	if len(args) < 1 {
		fmt.Fprintln(os.Stderr, "usage: vcheck run <ID> ...")
		return 3
	}
	id := args[0]
	fs.Parse(args[1:])
	if *tier == "" {
		*tier = os.Getenv("VERIF_TIER")
	}
	if *tier == "" {
		*tier = "quick"
	}
	seed := 1
	if s := os.Getenv("VERIF_SEED"); s != "" {
		if v, err := strconv.Atoi(s); err == nil {
			seed = v
		}
	}
	if *jobsN <= 0 {
		*jobsN = 12
	}
	if *cpuprof != "" {
		f, _ := os.Create(*cpuprof)
		pprof.StartCPUProfile(f)
		defer pprof.StopCPUProfile()
	}
	t0 := time.Now()
	evPath := *evidenceOut
	if evPath == "" {
		evPath = filepath.Join(verifRoot, "evidence", id+".json")
	}
	fail := func(msg string) int {
		fmt.Println("ERROR:", msg)
		writeEvidence(evPath, map[string]interface{}{
			"property_id": id, "tier": *tier, "seed": seed, "level": "other",
			"coverage": map[string]interface{}{"explanation": "run aborted before any obligation was decided: " + msg, "evaluations": 0, "obligations": 0, "discharged": 0},
			"wall_s":   time.Since(t0).Seconds(), "violations": 0,
		})
		return 3
	}
	data, err := os.ReadFile(filepath.Join(verifRoot, "harness", "specs", id+".json"))
	if err != nil {
		return fail("no spec for " + id + ": " + err.Error())
	}
	var spec Spec
	if err := json.Unmarshal(data, &spec); err != nil {
		return fail("bad spec: " + err.Error())
	}
	known := map[string][]string{}
	knownWhat := map[string]KnownFinding{}
	if kd, err := os.ReadFile(filepath.Join(verifRoot, "known_findings.json")); err == nil {
		var kf KnownFile
		if err := json.Unmarshal(kd, &kf); err != nil {
			return fail("bad known_findings.json: " + err.Error())
		}
		for _, f := range kf.Findings {
			if f.Property == id {
				known[f.Obligation] = append(known[f.Obligation], f.Class)
				knownWhat[f.Obligation+"|"+f.Class] = f
			}
		}
	}
	workdir := filepath.Join(verifRoot, ".work", fmt.Sprintf("%s-%d", id, os.Getpid()))
	os.MkdirAll(workdir, 0o755)
	defer os.RemoveAll(workdir)

	l, err := loadProgram(&spec, *repo, workdir)
	if err != nil {
		return fail(err.Error())
	}
	loadS := time.Since(t0).Seconds()

	// build job list
	var jobs []*job
	for i := range spec.Harnesses {
		h := &spec.Harnesses[i]
		if *only != "" && h.Name != *only {
			continue
		}
		if len(h.Tiers) > 0 {
			ok := false
			for _, t := range h.Tiers {
				if t == *tier {
					ok = true
				}
			}
			if !ok {
				continue
			}
		}
		grid := h.Grid[*tier]
		if grid == nil {
			grid = h.Grid["quick"]
		}
		if gp, ok := h.GridProduct[*tier]; ok {
			grid = append(grid, product(gp)...)
		}
		if grid == nil {
			grid = [][]int{{}}
		}
		for _, p := range grid {
			jobs = append(jobs, &job{h: h, params: p})
		}
	}
	if len(jobs) == 0 {
		return fail("no harness selected")
	}
	if *pin != "" {
		var pv struct {
			Params []int             `json:"params"`
			Vector map[string]uint64 `json:"vector"`
		}
		pd, err := os.ReadFile(*pin)
		if err != nil {
			return fail(err.Error())
		}
		if err := json.Unmarshal(pd, &pv); err != nil {
			return fail(err.Error())
		}
		pinnedVector = pv.Vector
		j := runJob(l, jobs[0].h, pv.Params, *tier, known, workdir, *trace, -1)
		fmt.Println("status:", j.res.PathStatus, "err:", j.err)
		for _, s := range j.res.Samples {
			vb, _ := json.Marshal(s.Vector)
			fmt.Println("obs:", s.Obs, "covers:", s.Covers, "vector:", string(vb))
		}
		for k, o := range j.res.Obl {
			if o.Sat > 0 {
				fmt.Println("failed obligation:", k)
			}
		}
		for k, v := range j.res.Unsupported {
			fmt.Println("unsupported:", k, v)
		}
		return 0
	}
	var wg sync.WaitGroup
	ch := make(chan int)
	ncpu := runtime.NumCPU()
	for w := 0; w < *jobsN; w++ {
		wg.Add(1)
		go func(w int) {
			defer wg.Done()
			cpu := -1
			if os.Getenv("VERIF_NOPIN") == "" && ncpu > 1 {
				cpu = w % ncpu
			}
			for i := range ch {
				jobs[i] = runJob(l, jobs[i].h, jobs[i].params, *tier, known, workdir, *trace, cpu)
				if jl := os.Getenv("VERIF_JOBLOG"); jl != "" {
					if f, err := os.OpenFile(jl, os.O_APPEND|os.O_CREATE|os.O_WRONLY, 0o644); err == nil {
						np := -1
						if jobs[i].res != nil {
							np = jobs[i].res.Paths
						}
						fmt.Fprintf(f, "%s %v %.1fs paths=%d err=%q\n", jobs[i].h.Name, jobs[i].params, jobs[i].wall.Seconds(), np, jobs[i].err)
						f.Close()
					}
				}
			}
		}(w)
	}
	for i := range jobs {
		ch <- i
	}
	close(ch)
	wg.Wait()

	// ---- merge ----
	type hagg struct {
		obl     map[string]*OblStat
		covers  map[string]int
		paths   int
		status  map[string]int
		unsup   map[string]int
		bounds  map[string]int
		points  int
		wall    float64
		steps   int
		witness map[string]map[string]uint64
	}
	aggs := map[string]*hagg{}
	var order []string
	var cands []*Candidate
	var samples []*PathSample
	sampleH := map[*PathSample]*HarnessSpec{}
	fns := map[string]bool{}
	modelsUsed := map[string]bool{}
	tot := SolverStats{TimeS: map[string]float64{}, BackendWins: map[string]int{}}
	distinct := 0
	var errs []string
	for _, j := range jobs {
		if j.err != "" {
			errs = append(errs, j.h.Name+": "+j.err)
			continue
		}
		a, ok := aggs[j.h.Name]
		if !ok {
			a = &hagg{obl: map[string]*OblStat{}, covers: map[string]int{}, status: map[string]int{}, unsup: map[string]int{}, bounds: map[string]int{}, witness: map[string]map[string]uint64{}}
			aggs[j.h.Name] = a
			order = append(order, j.h.Name)
		}
		a.points++
		a.wall += j.wall.Seconds()
		a.paths += j.res.Paths
		a.steps += j.res.Steps
		for k, s := range j.res.Obl {
			t, ok := a.obl[k]
			if !ok {
				t = &OblStat{Label: s.Label, Kind: s.Kind}
				a.obl[k] = t
			}
			t.Checked += s.Checked
			t.Trivial += s.Trivial
			t.Unsat += s.Unsat
			t.Sat += s.Sat
			t.Unknown += s.Unknown
			if s.MaxTerms > t.MaxTerms {
				t.MaxTerms = s.MaxTerms
			}
		}
		for k, v := range j.res.Covers {
			a.covers[k] += v
		}
		for k, v := range j.res.CoverWitness {
			if _, ok := a.witness[k]; !ok {
				a.witness[k] = v
			}
		}
		for k, v := range j.res.PathStatus {
			a.status[k] += v
		}
		for k, v := range j.res.Unsupported {
			a.unsup[k] += v
		}
		for k, v := range j.res.Bounds {
			a.bounds[k] += v
		}
		cands = append(cands, j.res.Candidates...)
		for _, s := range j.res.Samples {
			samples = append(samples, s)
			sampleH[s] = j.h
		}
		for k := range j.fns {
			fns[k] = true
		}
		for k := range j.models {
			modelsUsed[k] = true
		}
		distinct += len(j.res.distinctObl)
		tot.Queries += j.stats.Queries
		tot.CacheHits += j.stats.CacheHits
		tot.Sat += j.stats.Sat
		tot.Unsat += j.stats.Unsat
		tot.Unknown += j.stats.Unknown
		tot.Portfolio += j.stats.Portfolio
		tot.Errors += j.stats.Errors
		tot.ModelReuse += j.stats.ModelReuse
		tot.Restarts += j.stats.Restarts
		if j.stats.MaxQueryMs > tot.MaxQueryMs {
			tot.MaxQueryMs = j.stats.MaxQueryMs
		}
		for k, v := range j.stats.TimeS {
			tot.TimeS[k] += v
		}
		for k, v := range j.stats.BackendWins {
			tot.BackendWins[k] += v
		}
	}
	if len(errs) > 0 {
		return fail(strings.Join(errs, "; "))
	}

	// ---- native: replay candidates + translator validation ----
	// dedupe candidates by (harness,label,class)
	seenC := map[string]bool{}
	var ucands []*Candidate
	for _, c := range cands {
		k := c.Harness + "|" + c.Label + "|" + c.Class
		if seenC[k] {
			continue
		}
		seenC[k] = true
		ucands = append(ucands, c)
	}
	maxTV := 24
	if *tier == "thorough" {
		maxTV = 120
	}
	// subsample path samples deterministically, round-robin over harnesses
	var tv []*PathSample
	{
		byH := map[string][]*PathSample{}
		var hs []string
		for _, s := range samples {
			n := sampleH[s].Name
			if _, ok := byH[n]; !ok {
				hs = append(hs, n)
			}
			byH[n] = append(byH[n], s)
		}
		for i := 0; len(tv) < maxTV; i++ {
			added := false
			for _, n := range hs {
				if i < len(byH[n]) && len(tv) < maxTV {
					tv = append(tv, byH[n][(i*7+seed)%len(byH[n])])
					added = true
				}
			}
			if !added {
				break
			}
		}
	}
	confirmed := map[*Candidate]bool{}
	nativeNote := map[*Candidate]string{}
	tvAgreed, tvRun := 0, 0
	var tvMismatch []string
	nativeErr := ""
	if !*noNative && (len(ucands) > 0 || len(tv) > 0) {
		// group by package dir
		type pj struct {
			jobs    []NativeJob
			cands   []*Candidate
			samples []*PathSample
			entries map[string]int
			h       *HarnessSpec
		}
		byDir := map[string]*pj{}
		get := func(h *HarnessSpec) *pj {
			p, ok := byDir[h.Dir]
			if !ok {
				p = &pj{entries: map[string]int{}, h: h}
				byDir[h.Dir] = p
			}
			return p
		}
		hByName := map[string]*HarnessSpec{}
		for i := range spec.Harnesses {
			hByName[spec.Harnesses[i].Name] = &spec.Harnesses[i]
		}
		// all entries of a package must be known to the driver
		for i := range spec.Harnesses {
			h := &spec.Harnesses[i]
			p := get(h)
			p.entries[h.Entry] = arityOf(h)
		}
		for _, c := range ucands {
			h := hByName[c.Harness]
			p := get(h)
			p.jobs = append(p.jobs, NativeJob{h.Entry, c.Params, c.Vector})
			p.cands = append(p.cands, c)
		}
		for _, s := range tv {
			h := sampleH[s]
			p := get(h)
			p.jobs = append(p.jobs, NativeJob{h.Entry, s.Params, s.Vector})
			p.samples = append(p.samples, s)
		}
		for dir, p := range byDir {
			if len(p.jobs) == 0 {
				continue
			}
			name, _ := pkgNameOfDir(*repo, dir)
			outs, log, err := runNative(*repo, l.overlay, p.h.Pkg, dir, name, p.entries, p.jobs, workdir, 10*time.Minute)
			if err != nil {
				nativeErr = err.Error() + "\n" + log
				continue
			}
			for i, c := range p.cands {
				o := outs[i]
				switch c.Kind {
				case "assert":
					if o.has("VASSERT-FAIL " + c.Label) {
						confirmed[c] = true
					}
				case "panic":
					if o.has("VPANIC") {
						confirmed[c] = true
					}
				}
				nativeNote[c] = strings.Join(o.Lines, " ; ")
			}
			for attempt := 1; attempt < p.h.ReplayAttempts; attempt++ {
				var rjobs []NativeJob
				var rc []*Candidate
				for _, c := range p.cands {
					if !confirmed[c] {
						rjobs = append(rjobs, NativeJob{hByName[c.Harness].Entry, c.Params, c.Vector})
						rc = append(rc, c)
					}
				}
				if len(rc) == 0 {
					break
				}
				routs, _, rerr := runNative(*repo, l.overlay, p.h.Pkg, dir, name, p.entries, rjobs, workdir, 10*time.Minute)
				if rerr != nil {
					break
				}
				for i, c := range rc {
					o := routs[i]
					if (c.Kind == "assert" && o.has("VASSERT-FAIL "+c.Label)) || (c.Kind == "panic" && o.has("VPANIC")) {
						confirmed[c] = true
						nativeNote[c] = fmt.Sprintf("(reproduced at native attempt %d) ", attempt+1) + strings.Join(o.Lines, " ; ")
					}
				}
			}
			for i, s := range p.samples {
				o := outs[len(p.cands)+i]
				tvRun++
				got := strings.Join(o.obs(), ",")
				want := strings.Join(s.Obs, ",")
				bad := got != want || o.has("VASSERT-FAIL") || o.has("VPANIC") || o.has("VASSUME-FALSE") || o.has("VNOENTRY")
				if !bad {
					for _, cv := range s.Covers {
						if !o.has("VCOVER " + cv) {
							bad = true
						}
					}
				}
				if bad {
					vb, _ := json.Marshal(s.Vector)
					tvMismatch = append(tvMismatch, fmt.Sprintf("harness=%s params=%v vector=%s engine_obs=[%s] native=[%s]", sampleH[s].Name, s.Params, vb, want, strings.Join(o.Lines, " ; ")))
				} else {
					tvAgreed++
				}
			}
		}
	}

	// ---- verdict ----
	violations := 0
	knownHits := []string{}
	unconfirmed := []map[string]interface{}{}
	var outLines []string
	replayRoot := filepath.Join(verifRoot, "replays", id)
	for _, c := range ucands {
		if *noNative {
			confirmed[c] = true
		}
		if !confirmed[c] {
			unconfirmed = append(unconfirmed, map[string]interface{}{"harness": c.Harness, "label": c.Label, "params": c.Params, "vector": c.Vector, "native": nativeNote[c]})
			continue
		}
		if c.Class != "" {
			kf := knownWhat[c.Label+"|"+c.Class]
			line := fmt.Sprintf("KNOWN-FINDING: property=%s %s [%s/%s class=%s] %s", id, kf.ID, c.Harness, c.Label, c.Class, kf.What)
			knownHits = append(knownHits, line)
			outLines = append(outLines, line)
			continue
		}
		violations++
		dir := filepath.Join(replayRoot, slug(c.Harness+"__"+c.Label))
		os.MkdirAll(dir, 0o755)
		cb, _ := json.MarshalIndent(map[string]interface{}{"property": id, "candidate": c, "native_output": nativeNote[c], "repo": *repo}, "", " ")
		os.WriteFile(filepath.Join(dir, "replay.json"), cb, 0o644)
		outLines = append(outLines, fmt.Sprintf("VIOLATION property=%s replay=%s", id, dir))
		outLines = append(outLines, fmt.Sprintf("  harness=%s obligation=%s params=%v native: %s", c.Harness, c.Label, c.Params, nativeNote[c]))
	}

	// ---- evidence ----
	obligations, discharged, trivial, unknown := 0, 0, 0, 0
	var oblList []map[string]interface{}
	vacuous := []string{}
	inconclusive := []string{}
	harnessEv := []map[string]interface{}{}
	for _, name := range order {
		a := aggs[name]
		var h *HarnessSpec
		for i := range spec.Harnesses {
			if spec.Harnesses[i].Name == name {
				h = &spec.Harnesses[i]
			}
		}
		labels := make([]string, 0, len(a.obl))
		for k := range a.obl {
			labels = append(labels, k)
		}
		sort.Strings(labels)
		for _, k := range labels {
			s := a.obl[k]
			obligations += s.Checked
			discharged += s.Trivial + s.Unsat
			trivial += s.Trivial
			unknown += s.Unknown
			oblList = append(oblList, map[string]interface{}{"harness": name, "obligation": k, "kind": s.Kind, "reached": s.Checked, "closed_by_folding": s.Trivial, "unsat": s.Unsat, "sat": s.Sat, "unknown": s.Unknown, "max_term_nodes": s.MaxTerms})
			if s.Unknown > 0 {
				inconclusive = append(inconclusive, fmt.Sprintf("%s/%s: %d solver unknowns", name, k, s.Unknown))
			}
		}
		for _, cv := range h.Covers {
			if a.covers[cv] == 0 {
				vacuous = append(vacuous, name+"/"+cv)
			}
		}
		for k, v := range a.unsup {
			inconclusive = append(inconclusive, fmt.Sprintf("%s: %d paths ended unsupported: %s", name, v, k))
		}
		for k, v := range a.bounds {
			inconclusive = append(inconclusive, fmt.Sprintf("%s: %d paths hit a bound: %s", name, v, k))
		}
		for k, v := range a.status {
			if k == "engine-error" || k == "blocked" {
				inconclusive = append(inconclusive, fmt.Sprintf("%s: %d paths ended %s", name, v, k))
			}
		}
		bound := h.Bounds[*tier]
		if bound == "" {
			bound = h.Bounds["quick"]
		}
		cw := map[string]interface{}{}
		for k, v := range a.witness {
			cw[k] = v
		}
		harnessEv = append(harnessEv, map[string]interface{}{"harness": name, "entry": h.Entry, "pkg": h.Pkg, "grid_points": a.points, "paths": a.paths, "ssa_steps": a.steps,
			"path_status": a.status, "covers_reached": a.covers, "cover_witnesses": cw, "bounds": bound, "unwind": h.Unwind, "cpu_s": a.wall})
	}
	sort.Strings(inconclusive)
	fnList := make([]string, 0, len(fns))
	for k := range fns {
		fnList = append(fnList, k)
	}
	sort.Strings(fnList)
	repoFns := []string{}
	otherFns := 0
	for _, f := range fnList {
		if strings.Contains(f, "relab/hotstuff") && !strings.Contains(f, "VH_") && !strings.Contains(f, "vh") {
			repoFns = append(repoFns, f)
		} else {
			otherFns++
		}
	}
	mdl := make([]string, 0, len(modelsUsed))
	for k := range modelsUsed {
		mdl = append(mdl, k)
	}
	sort.Strings(mdl)
	samplesEv := []interface{}{}
	for i, o := range oblList {
		if i < 12 {
			samplesEv = append(samplesEv, o)
		}
	}
	for i, s := range tv {
		if i < 4 {
			samplesEv = append(samplesEv, map[string]interface{}{"path_vector": s.Vector, "params": s.Params, "observations": s.Obs, "covers": s.Covers, "harness": sampleH[s].Name})
		}
	}
	paths := 0
	for _, a := range aggs {
		paths += a.paths
	}
	if len(unconfirmed) > 0 {
		inconclusive = append(inconclusive, fmt.Sprintf("%d solver counterexamples did not reproduce natively (engine or model error suspected)", len(unconfirmed)))
	}
	if nativeErr != "" {
		inconclusive = append(inconclusive, "native run failed: "+firstLines(nativeErr, 6))
	}
	cov := map[string]interface{}{
		"explanation":                spec.Explanation + " Decided by bounded symbolic execution of the repository's Go SSA (regenerated from the working tree on this run) with SMT queries; every obligation is pc => assertion for one explored path; a sat answer is replayed natively before it is reported.",
		"functions_encoded":          repoFns,
		"other_functions_executed":   otherFns,
		"models_used":                mdl,
		"harnesses":                  harnessEv,
		"obligations":                obligations,
		"discharged":                 discharged,
		"closed_by_constant_folding": trivial,
		"solver_unknown":             unknown,
		"evaluations":                paths,
		"distinct_nontrivial":        distinct,
		"rule":                       "evaluations = symbolic paths explored (each stands for all inputs satisfying its path condition); distinct_nontrivial = distinct obligation terms that were not closed by constant folding and reached the solver",
		"samples":                    samplesEv,
		"obligation_table":           oblList,
		"queries":                    tot.Queries,
		"query_cache_hits":           tot.CacheHits,
		"model_reuse":                tot.ModelReuse,
		"solver_results":             map[string]int{"sat": tot.Sat, "unsat": tot.Unsat, "unknown": tot.Unknown, "errors": tot.Errors, "portfolio_queries": tot.Portfolio, "restarts": tot.Restarts},
		"solver_time_s":              tot.TimeS,
		"backend_wins":               tot.BackendWins,
		"max_query_ms":               tot.MaxQueryMs,
		"vacuous_covers":             vacuous,
		"inconclusive":               inconclusive,
		"translator_validation":      map[string]interface{}{"vectors": tvRun, "agreed": tvAgreed, "mismatches": tvMismatch},
		"unconfirmed":                unconfirmed,
		"known_findings_hit":         knownHits,
		"load_s":                     loadS,
		"outside":                    spec.Outside,
		"exhaustive":                 false,
	}
	ev := map[string]interface{}{
		"property_id": id, "tier": *tier, "seed": seed, "level": "other", "coverage": cov,
		"assumptions": spec.Assumptions, "wall_s": time.Since(t0).Seconds(), "violations": violations,
	}
	writeEvidence(evPath, ev)
	if *evidenceOut == "" && *only == "" {
		// keep the last run of each tier next to the file the manifest names
		writeEvidence(filepath.Join(verifRoot, "evidence", "by-tier", id+"."+*tier+".json"), ev)
	}

	for _, l := range outLines {
		fmt.Println(l)
	}
	if len(tvMismatch) > 0 {
		fmt.Printf("ERROR: translator validation: %d of %d vectors disagree between engine and native run\n", len(tvMismatch), tvRun)
		for i, m := range tvMismatch {
			if i < 5 {
				fmt.Println("  " + m)
			}
		}
		return 3
	}
	for _, v := range vacuous {
		fmt.Println("INCONCLUSIVE: cover point never reached (vacuous): " + v)
	}
	for _, v := range inconclusive {
		fmt.Println("INCONCLUSIVE: " + v)
	}
	fmt.Printf("%s %s: %d obligations, %d discharged (%d by folding), %d violated, %d unknown; %d paths; %d queries; tv %d/%d; %.1fs\n",
		id, *tier, obligations, discharged, trivial, violations, unknown, paths, tot.Queries, tvAgreed, tvRun, time.Since(t0).Seconds())
	if violations > 0 {
		return 1
	}
	// Nothing violated. Solver unknowns and bound hits reduce the explored bound (stated in the
	// INCONCLUSIVE lines and the evidence) and leave the exit code at 0. A run that could not
	// execute the code at all (unsupported construct, vacuous cover point, native run failed,
	// counterexamples that do not replay) did not decide anything and must not look like a pass.
	for _, v := range inconclusive {
		if strings.Contains(v, "ended unsupported") || strings.Contains(v, "did not reproduce natively") || strings.HasPrefix(v, "native run failed") {
			return 3
		}
	}
	if len(vacuous) > 0 {
		return 3
	}
	return 0
}

func arityOf(h *HarnessSpec) int {
	for _, g := range h.Grid {
		if len(g) > 0 {
			return len(g[0])
		}
	}
	for _, g := range h.GridProduct {
		return len(g)
	}
	return 0
}

func product(lists [][]int) [][]int {
	out := [][]int{{}}
	for _, l := range lists {
		var nxt [][]int
		for _, p := range out {
			for _, v := range l {
				nxt = append(nxt, append(append([]int(nil), p...), v))
			}
		}
		out = nxt
	}
	return out
}

func firstLines(s string, n int) string {
	ls := strings.Split(s, "\n")
	if len(ls) > n {
		ls = ls[:n]
	}
	return strings.Join(ls, " | ")
}

func writeEvidence(path string, ev map[string]interface{}) {
	os.MkdirAll(filepath.Dir(path), 0o755)
	b, _ := json.MarshalIndent(ev, "", " ")
	os.WriteFile(path, b, 0o644)
}

func cmdReplay(args []string) int {
	if len(args) < 1 {
		fmt.Fprintln(os.Stderr, "usage: vcheck replay <dir>")
		return 3
	}
	data, err := os.ReadFile(filepath.Join(args[0], "replay.json"))
	if err != nil {
		fmt.Println("ERROR:", err)
		return 3
	}
	var r struct {
		Property  string     `json:"property"`
		Candidate *Candidate `json:"candidate"`
		Repo      string     `json:"repo"`
	}
	if err := json.Unmarshal(data, &r); err != nil {
		fmt.Println("ERROR:", err)
		return 3
	}
	repo := "/repo"
	if len(args) > 1 {
		repo = args[1]
	}
	sd, err := os.ReadFile(filepath.Join(verifRoot, "harness", "specs", r.Property+".json"))
	if err != nil {
		fmt.Println("ERROR:", err)
		return 3
	}
	var spec Spec
	json.Unmarshal(sd, &spec)
	workdir := filepath.Join(verifRoot, ".work", fmt.Sprintf("replay-%d", os.Getpid()))
	os.MkdirAll(workdir, 0o755)
	defer os.RemoveAll(workdir)
	ov, err := buildOverlay(&spec, repo, workdir)
	if err != nil {
		fmt.Println("ERROR:", err)
		return 3
	}
	var h *HarnessSpec
	entries := map[string]int{}
	for i := range spec.Harnesses {
		if spec.Harnesses[i].Name == r.Candidate.Harness {
			h = &spec.Harnesses[i]
		}
	}
	if h == nil {
		fmt.Println("ERROR: harness not in spec")
		return 3
	}
	for i := range spec.Harnesses {
		hh := &spec.Harnesses[i]
		if hh.Dir == h.Dir {
			entries[hh.Entry] = arityOf(hh)
		}
	}
	name, _ := pkgNameOfDir(repo, h.Dir)
	// every entry package of the spec gets the harness API (a spec may share harness files of
	// other packages, which then have to compile as dependencies of the replayed one)
	seenDir := map[string]bool{}
	for i := range spec.Harnesses {
		d := spec.Harnesses[i].Dir
		if seenDir[d] {
			continue
		}
		seenDir[d] = true
		dn, _ := pkgNameOfDir(repo, d)
		api := filepath.Join(workdir, fmt.Sprintf("api_%d.go", len(seenDir)))
		os.WriteFile(api, []byte(strings.Replace(apiSrc, "PKGNAME", dn, 1)), 0o644)
		ov[filepath.Join(repo, d, "zz_verif_api.go")] = api
	}
	outs, log, err := runNative(repo, ov, h.Pkg, h.Dir, name, entries, []NativeJob{{h.Entry, r.Candidate.Params, r.Candidate.Vector}}, workdir, 10*time.Minute)
	if err != nil {
		fmt.Println("ERROR:", err, log)
		return 3
	}
	for _, l := range outs[0].Lines {
		fmt.Println(l)
	}
	if (r.Candidate.Kind == "assert" && outs[0].has("VASSERT-FAIL "+r.Candidate.Label)) || (r.Candidate.Kind == "panic" && outs[0].has("VPANIC")) {
		fmt.Printf("VIOLATION property=%s replay=%s\n", r.Property, args[0])
		return 1
	}
	fmt.Println("replay did not reproduce the violation")
	return 0
}
