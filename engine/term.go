package main

// Hash-consed term DAG over bit-vectors (width 1..64), Booleans and float64,
// with a constant-folding simplifier, an evaluator and an SMT-LIB2 printer.

import (
	"fmt"
	"math"
	"math/bits"
	"os"
	"sort"
	"strings"
)

type Op int

const (
	OpConst Op = iota
	OpVar
	OpAdd
	OpSub
	OpMul
	OpUDiv
	OpURem
	OpSDiv
	OpSRem
	OpAnd
	OpOr
	OpXor
	OpNot // bitwise not / boolean not (by sort)
	OpNeg
	OpShl
	OpLShr
	OpAShr
	OpExtract // p1=hi p2=lo
	OpZExt    // to width w
	OpSExt
	OpConcat
	OpEq
	OpULt
	OpULe
	OpSLt
	OpSLe
	OpBAnd // boolean and (n-ary)
	OpBOr
	OpIte
	// float64
	OpFFromS // signed bv -> fp RNE
	OpFFromU
	OpFToS // fp -> signed bv of width w, RTZ
	OpFToU
	OpFAdd
	OpFSub
	OpFMul
	OpFDiv
	OpFNeg
	OpFCeil
	OpFFloor
	OpFLt
	OpFLe
	OpFEq
)

const (
	SortBool = 0
	SortFP   = -1
)

type Term struct {
	id     int
	op     Op
	w      int // width for BV; 0 Bool; -1 FP64
	args   []*Term
	cval   uint64 // constants (FP: bits)
	name   string // variables
	p1, p2 int
}

type TermStore struct {
	tab   map[string]*Term
	all   []*Term
	vars  map[string]*Term
	True  *Term
	False *Term
}

func NewTermStore() *TermStore {
	ts := &TermStore{tab: map[string]*Term{}, vars: map[string]*Term{}}
	ts.True = ts.mk(&Term{op: OpConst, w: SortBool, cval: 1})
	ts.False = ts.mk(&Term{op: OpConst, w: SortBool, cval: 0})
	return ts
}

func (ts *TermStore) mk(t *Term) *Term {
	var sb strings.Builder
	fmt.Fprintf(&sb, "%d|%d|%d|%d|%d|%s|", t.op, t.w, t.cval, t.p1, t.p2, t.name)
	for _, a := range t.args {
		fmt.Fprintf(&sb, "%d,", a.id)
	}
	k := sb.String()
	if e, ok := ts.tab[k]; ok {
		return e
	}
	t.id = len(ts.all)
	ts.all = append(ts.all, t)
	ts.tab[k] = t
	return t
}

func mask(w int) uint64 {
	if w >= 64 {
		return ^uint64(0)
	}
	return (uint64(1) << uint(w)) - 1
}

func sext64(v uint64, w int) int64 {
	if w >= 64 {
		return int64(v)
	}
	s := uint(64 - w)
	return int64(v<<s) >> s
}

func (t *Term) IsConst() bool { return t.op == OpConst }
func (t *Term) IsTrue() bool  { return t.op == OpConst && t.w == SortBool && t.cval == 1 }
func (t *Term) IsFalse() bool { return t.op == OpConst && t.w == SortBool && t.cval == 0 }

func (ts *TermStore) BV(v uint64, w int) *Term {
	return ts.mk(&Term{op: OpConst, w: w, cval: v & mask(w)})
}
func (ts *TermStore) Bool(b bool) *Term {
	if b {
		return ts.True
	}
	return ts.False
}
func (ts *TermStore) FP(f float64) *Term {
	return ts.mk(&Term{op: OpConst, w: SortFP, cval: math.Float64bits(f)})
}
func (ts *TermStore) Var(name string, w int) *Term {
	if v, ok := ts.vars[name]; ok {
		if v.w != w {
			panic(fmt.Sprintf("variable %s redeclared with different sort %d vs %d", name, v.w, w))
		}
		return v
	}
	v := ts.mk(&Term{op: OpVar, w: w, name: name})
	ts.vars[name] = v
	return v
}

// evalOp computes an operation over constant arguments.
func evalOp(op Op, w int, p1, p2 int, a []uint64, aw []int) uint64 {
	m := mask(w)
	switch op {
	case OpAdd:
		return (a[0] + a[1]) & m
	case OpSub:
		return (a[0] - a[1]) & m
	case OpMul:
		return (a[0] * a[1]) & m
	case OpUDiv:
		if a[1] == 0 {
			return m
		}
		return (a[0] / a[1]) & m
	case OpURem:
		if a[1] == 0 {
			return a[0]
		}
		return (a[0] % a[1]) & m
	case OpSDiv:
		x, y := sext64(a[0], w), sext64(a[1], w)
		if y == 0 {
			if x >= 0 {
				return m
			}
			return 1
		}
		if y == -1 {
			return uint64(-x) & m
		}
		return uint64(x/y) & m
	case OpSRem:
		x, y := sext64(a[0], w), sext64(a[1], w)
		if y == 0 {
			return a[0]
		}
		if y == -1 {
			return 0
		}
		return uint64(x%y) & m
	case OpAnd:
		return a[0] & a[1]
	case OpOr:
		return a[0] | a[1]
	case OpXor:
		return (a[0] ^ a[1]) & m
	case OpNot:
		if w == SortBool {
			return a[0] ^ 1
		}
		return (^a[0]) & m
	case OpNeg:
		return (-a[0]) & m
	case OpShl:
		if a[1] >= uint64(w) {
			return 0
		}
		return (a[0] << a[1]) & m
	case OpLShr:
		if a[1] >= uint64(w) {
			return 0
		}
		return (a[0] >> a[1]) & m
	case OpAShr:
		x := sext64(a[0], w)
		s := a[1]
		if s >= uint64(w) {
			s = uint64(w - 1)
		}
		return uint64(x>>s) & m
	case OpExtract:
		return (a[0] >> uint(p2)) & mask(p1-p2+1)
	case OpZExt:
		return a[0]
	case OpSExt:
		return uint64(sext64(a[0], aw[0])) & m
	case OpConcat:
		return ((a[0] << uint(aw[1])) | a[1]) & m
	case OpEq:
		return b2u(a[0] == a[1])
	case OpULt:
		return b2u(a[0] < a[1])
	case OpULe:
		return b2u(a[0] <= a[1])
	case OpSLt:
		return b2u(sext64(a[0], aw[0]) < sext64(a[1], aw[1]))
	case OpSLe:
		return b2u(sext64(a[0], aw[0]) <= sext64(a[1], aw[1]))
	case OpBAnd:
		for _, x := range a {
			if x == 0 {
				return 0
			}
		}
		return 1
	case OpBOr:
		for _, x := range a {
			if x != 0 {
				return 1
			}
		}
		return 0
	case OpIte:
		if a[0] != 0 {
			return a[1]
		}
		return a[2]
	case OpFFromS:
		return math.Float64bits(float64(sext64(a[0], aw[0])))
	case OpFFromU:
		return math.Float64bits(float64(a[0]))
	case OpFToS:
		f := math.Float64frombits(a[0])
		return uint64(int64(f)) & m
	case OpFToU:
		f := math.Float64frombits(a[0])
		return uint64(f) & m
	case OpFAdd:
		return math.Float64bits(math.Float64frombits(a[0]) + math.Float64frombits(a[1]))
	case OpFSub:
		return math.Float64bits(math.Float64frombits(a[0]) - math.Float64frombits(a[1]))
	case OpFMul:
		return math.Float64bits(math.Float64frombits(a[0]) * math.Float64frombits(a[1]))
	case OpFDiv:
		return math.Float64bits(math.Float64frombits(a[0]) / math.Float64frombits(a[1]))
	case OpFNeg:
		return math.Float64bits(-math.Float64frombits(a[0]))
	case OpFCeil:
		return math.Float64bits(math.Ceil(math.Float64frombits(a[0])))
	case OpFFloor:
		return math.Float64bits(math.Floor(math.Float64frombits(a[0])))
	case OpFLt:
		return b2u(math.Float64frombits(a[0]) < math.Float64frombits(a[1]))
	case OpFLe:
		return b2u(math.Float64frombits(a[0]) <= math.Float64frombits(a[1]))
	case OpFEq:
		return b2u(math.Float64frombits(a[0]) == math.Float64frombits(a[1]))
	}
	panic(fmt.Sprintf("evalOp: unhandled op %d", op))
}

func b2u(b bool) uint64 {
	if b {
		return 1
	}
	return 0
}

func (ts *TermStore) constOf(w int, v uint64) *Term {
	if w == SortBool {
		return ts.Bool(v != 0)
	}
	if w == SortFP {
		return ts.mk(&Term{op: OpConst, w: SortFP, cval: v})
	}
	return ts.BV(v, w)
}

// app builds op(args) with simplification.
func (ts *TermStore) app(op Op, w int, p1, p2 int, args ...*Term) *Term {
	allc := true
	for _, a := range args {
		if !a.IsConst() {
			allc = false
			break
		}
	}
	if allc {
		av := make([]uint64, len(args))
		aw := make([]int, len(args))
		for i, a := range args {
			av[i] = a.cval
			aw[i] = a.w
		}
		return ts.constOf(w, evalOp(op, w, p1, p2, av, aw))
	}
	// arithmetic of a constant with an ite tree whose leaves are all constants (a position or
	// index selected by a chain of comparisons) is pushed into the leaves, where it folds: the
	// result is again such a tree and no division or multiplication reaches the solver.
	switch op {
	case OpAdd, OpSub, OpMul, OpUDiv, OpURem, OpSDiv, OpSRem, OpShl, OpLShr, OpAShr, OpAnd, OpOr, OpXor,
		OpULt, OpULe, OpSLt, OpSLe:
		if len(args) == 2 && w != SortFP && args[0].w != SortFP && !noIteDist {
			for i := 0; i < 2; i++ {
				if args[i].op == OpIte && args[1-i].IsConst() && iteConstLeaves(args[i], 64) {
					k := args[1-i]
					idx := i
					return ts.mapIteLeaves(args[i], map[*Term]*Term{}, func(leaf *Term) *Term {
						if idx == 0 {
							return ts.app(op, w, p1, p2, leaf, k)
						}
						return ts.app(op, w, p1, p2, k, leaf)
					})
				}
			}
		}
	}
	switch op {
	case OpAdd:
		if args[0].IsConst() {
			args[0], args[1] = args[1], args[0]
		}
		if args[1].IsConst() {
			if args[1].cval == 0 {
				return args[0]
			}
			// (x + c1) + c2
			if args[0].op == OpAdd && args[0].args[1].IsConst() {
				return ts.app(OpAdd, w, 0, 0, args[0].args[0], ts.BV(args[0].args[1].cval+args[1].cval, w))
			}
		}
	case OpSub:
		if args[1].IsConst() {
			return ts.app(OpAdd, w, 0, 0, args[0], ts.BV(-args[1].cval, w))
		}
		if args[0] == args[1] {
			return ts.BV(0, w)
		}
	case OpUDiv, OpURem, OpSDiv, OpSRem:
		if args[1].IsConst() && args[1].cval != 0 && args[1].cval&(args[1].cval-1) == 0 && sext64(args[1].cval, w) > 0 {
			k := bits.TrailingZeros64(args[1].cval)
			x := args[0]
			if k == 0 {
				if op == OpUDiv || op == OpSDiv {
					return x
				}
				return ts.BV(0, w)
			}
			kc := ts.BV(uint64(k), w)
			switch op {
			case OpUDiv:
				return ts.app(OpLShr, w, 0, 0, x, kc)
			case OpURem:
				return ts.app(OpAnd, w, 0, 0, x, ts.BV(args[1].cval-1, w))
			case OpSDiv, OpSRem:
				sign := ts.app(OpAShr, w, 0, 0, x, ts.BV(uint64(w-1), w))
				bias := ts.app(OpLShr, w, 0, 0, sign, ts.BV(uint64(w-k), w))
				q := ts.app(OpAShr, w, 0, 0, ts.app(OpAdd, w, 0, 0, x, bias), kc)
				if op == OpSDiv {
					return q
				}
				return ts.app(OpSub, w, 0, 0, x, ts.app(OpShl, w, 0, 0, q, kc))
			}
		}
	case OpMul:
		if args[0].IsConst() {
			args[0], args[1] = args[1], args[0]
		}
		if args[1].IsConst() {
			if args[1].cval == 0 {
				return ts.BV(0, w)
			}
			if args[1].cval == 1 {
				return args[0]
			}
		}
	case OpAnd:
		if args[0].IsConst() {
			args[0], args[1] = args[1], args[0]
		}
		if args[1].IsConst() {
			if args[1].cval == 0 {
				return ts.BV(0, w)
			}
			if args[1].cval == mask(w) {
				return args[0]
			}
		}
		if args[0] == args[1] {
			return args[0]
		}
	case OpOr:
		if args[0].IsConst() {
			args[0], args[1] = args[1], args[0]
		}
		if args[1].IsConst() {
			if args[1].cval == 0 {
				return args[0]
			}
			if args[1].cval == mask(w) {
				return args[1]
			}
		}
		if args[0] == args[1] {
			return args[0]
		}
	case OpXor:
		if args[0] == args[1] {
			return ts.BV(0, w)
		}
		if args[1].IsConst() && args[1].cval == 0 {
			return args[0]
		}
		if args[0].IsConst() && args[0].cval == 0 {
			return args[1]
		}
	case OpShl, OpLShr, OpAShr:
		if args[1].IsConst() && args[1].cval == 0 {
			return args[0]
		}
	case OpNot:
		if args[0].op == OpNot {
			return args[0].args[0]
		}
		if w == SortBool {
			// push negation into comparisons to keep terms small
			a := args[0]
			switch a.op {
			case OpULt:
				return ts.app(OpULe, SortBool, 0, 0, a.args[1], a.args[0])
			case OpULe:
				return ts.app(OpULt, SortBool, 0, 0, a.args[1], a.args[0])
			case OpSLt:
				return ts.app(OpSLe, SortBool, 0, 0, a.args[1], a.args[0])
			case OpSLe:
				return ts.app(OpSLt, SortBool, 0, 0, a.args[1], a.args[0])
			}
		}
	case OpExtract:
		a := args[0]
		if p2 == 0 && p1 == a.w-1 {
			return a
		}
		if a.op == OpZExt || a.op == OpSExt {
			inner := a.args[0]
			if p1 < inner.w {
				return ts.app(OpExtract, w, p1, p2, inner)
			}
			if a.op == OpZExt && p2 >= inner.w {
				return ts.BV(0, w)
			}
		}
		if a.op == OpConcat {
			lo := a.args[1]
			hi := a.args[0]
			if p1 < lo.w {
				return ts.app(OpExtract, w, p1, p2, lo)
			}
			if p2 >= lo.w {
				return ts.app(OpExtract, w, p1-lo.w, p2-lo.w, hi)
			}
		}
		if a.op == OpExtract {
			return ts.app(OpExtract, w, p1+a.p2, p2+a.p2, a.args[0])
		}
		if a.op == OpIte && a.args[1].IsConst() && a.args[2].IsConst() {
			return ts.Ite(a.args[0], ts.app(OpExtract, w, p1, p2, a.args[1]), ts.app(OpExtract, w, p1, p2, a.args[2]))
		}
	case OpZExt, OpSExt:
		if args[0].w == w {
			return args[0]
		}
		if args[0].op == OpZExt && op == OpZExt {
			return ts.app(OpZExt, w, 0, 0, args[0].args[0])
		}
		if args[0].op == OpZExt && op == OpSExt {
			// zero-extended value has a clear sign bit
			return ts.app(OpZExt, w, 0, 0, args[0].args[0])
		}
		if args[0].op == OpIte && args[0].args[1].IsConst() && args[0].args[2].IsConst() {
			a := args[0]
			return ts.Ite(a.args[0], ts.app(op, w, 0, 0, a.args[1]), ts.app(op, w, 0, 0, a.args[2]))
		}
	case OpEq:
		if args[0] == args[1] {
			return ts.True
		}
		if args[0].IsConst() {
			args[0], args[1] = args[1], args[0]
		}
		if args[0].w == SortBool && args[1].IsConst() {
			if args[1].cval == 1 {
				return args[0]
			}
			return ts.Not(args[0])
		}
		// eq(ite(c, k1, k2), k) with constants
		if args[1].IsConst() && args[0].op == OpIte {
			a := args[0]
			if a.args[1].IsConst() || a.args[2].IsConst() {
				return ts.Ite(a.args[0], ts.Eq(a.args[1], args[1]), ts.Eq(a.args[2], args[1]))
			}
		}
		// eq(zext(x), c)
		if args[1].IsConst() && args[0].op == OpZExt {
			inner := args[0].args[0]
			if args[1].cval > mask(inner.w) {
				return ts.False
			}
			return ts.Eq(inner, ts.BV(args[1].cval, inner.w))
		}
		if args[0].id > args[1].id && !args[1].IsConst() {
			args[0], args[1] = args[1], args[0]
		}
	case OpULt:
		if args[0] == args[1] {
			return ts.False
		}
		if args[1].IsConst() && args[1].cval == 0 {
			return ts.False
		}
	case OpULe:
		if args[0] == args[1] {
			return ts.True
		}
		if args[0].IsConst() && args[0].cval == 0 {
			return ts.True
		}
	case OpSLt:
		if args[0] == args[1] {
			return ts.False
		}
	case OpSLe:
		if args[0] == args[1] {
			return ts.True
		}
	case OpIte:
		c, a, b := args[0], args[1], args[2]
		if c.IsTrue() {
			return a
		}
		if c.IsFalse() {
			return b
		}
		if a == b {
			return a
		}
		if a.w == SortBool {
			if a.IsTrue() && b.IsFalse() {
				return c
			}
			if a.IsFalse() && b.IsTrue() {
				return ts.Not(c)
			}
			if a.IsTrue() {
				return ts.Or(c, b)
			}
			if a.IsFalse() {
				return ts.And(ts.Not(c), b)
			}
			if b.IsTrue() {
				return ts.Or(ts.Not(c), a)
			}
			if b.IsFalse() {
				return ts.And(c, a)
			}
		}
		if a.op == OpIte && a.args[0] == c {
			return ts.app(OpIte, w, 0, 0, c, a.args[1], b)
		}
		if b.op == OpIte && b.args[0] == c {
			return ts.app(OpIte, w, 0, 0, c, a, b.args[2])
		}
	}
	if w != SortBool && w != SortFP && w > 0 {
		// ok
	}
	return ts.mk(&Term{op: op, w: w, args: append([]*Term(nil), args...), p1: p1, p2: p2})
}

func (ts *TermStore) Not(a *Term) *Term { return ts.app(OpNot, a.w, 0, 0, a) }

func (ts *TermStore) And(xs ...*Term) *Term {
	var out []*Term
	seen := map[int]bool{}
	for _, x := range xs {
		if x.IsFalse() {
			return ts.False
		}
		if x.IsTrue() {
			continue
		}
		if x.op == OpBAnd {
			for _, y := range x.args {
				if !seen[y.id] {
					seen[y.id] = true
					out = append(out, y)
				}
			}
			continue
		}
		if !seen[x.id] {
			seen[x.id] = true
			out = append(out, x)
		}
	}
	for _, x := range out {
		if x.op == OpNot && seen[x.args[0].id] {
			return ts.False
		}
	}
	if len(out) == 0 {
		return ts.True
	}
	if len(out) == 1 {
		return out[0]
	}
	sort.Slice(out, func(i, j int) bool { return out[i].id < out[j].id })
	return ts.mk(&Term{op: OpBAnd, w: SortBool, args: out})
}

func (ts *TermStore) Or(xs ...*Term) *Term {
	var out []*Term
	seen := map[int]bool{}
	for _, x := range xs {
		if x.IsTrue() {
			return ts.True
		}
		if x.IsFalse() {
			continue
		}
		if x.op == OpBOr {
			for _, y := range x.args {
				if !seen[y.id] {
					seen[y.id] = true
					out = append(out, y)
				}
			}
			continue
		}
		if !seen[x.id] {
			seen[x.id] = true
			out = append(out, x)
		}
	}
	for _, x := range out {
		if x.op == OpNot && seen[x.args[0].id] {
			return ts.True
		}
	}
	if len(out) == 0 {
		return ts.False
	}
	if len(out) == 1 {
		return out[0]
	}
	sort.Slice(out, func(i, j int) bool { return out[i].id < out[j].id })
	return ts.mk(&Term{op: OpBOr, w: SortBool, args: out})
}

func (ts *TermStore) Implies(a, b *Term) *Term { return ts.Or(ts.Not(a), b) }
func (ts *TermStore) Eq(a, b *Term) *Term {
	if a.w != b.w {
		panic(fmt.Sprintf("Eq: sort mismatch %d vs %d", a.w, b.w))
	}
	if a.w == SortFP {
		return ts.app(OpFEq, SortBool, 0, 0, a, b)
	}
	return ts.app(OpEq, SortBool, 0, 0, a, b)
}
func (ts *TermStore) Ite(c, a, b *Term) *Term {
	if a.w != b.w {
		panic(fmt.Sprintf("Ite: sort mismatch %d vs %d", a.w, b.w))
	}
	return ts.app(OpIte, a.w, 0, 0, c, a, b)
}
func (ts *TermStore) Bin(op Op, a, b *Term) *Term {
	if a.w != b.w {
		panic(fmt.Sprintf("Bin op %d: width mismatch %d vs %d", op, a.w, b.w))
	}
	switch op {
	case OpEq, OpULt, OpULe, OpSLt, OpSLe, OpFLt, OpFLe, OpFEq:
		return ts.app(op, SortBool, 0, 0, a, b)
	}
	return ts.app(op, a.w, 0, 0, a, b)
}
func (ts *TermStore) Extract(a *Term, hi, lo int) *Term {
	return ts.app(OpExtract, hi-lo+1, hi, lo, a)
}
func (ts *TermStore) ZExt(a *Term, w int) *Term {
	if a.w == w {
		return a
	}
	if a.w > w {
		return ts.Extract(a, w-1, 0)
	}
	return ts.app(OpZExt, w, 0, 0, a)
}
func (ts *TermStore) SExt(a *Term, w int) *Term {
	if a.w == w {
		return a
	}
	if a.w > w {
		return ts.Extract(a, w-1, 0)
	}
	return ts.app(OpSExt, w, 0, 0, a)
}
func (ts *TermStore) Concat(hi, lo *Term) *Term {
	return ts.app(OpConcat, hi.w+lo.w, 0, 0, hi, lo)
}

// Eval evaluates t under a model (variable name -> value); missing variables are 0.
func (ts *TermStore) Eval(t *Term, model map[string]uint64, memo map[int]uint64) uint64 {
	if t.op == OpConst {
		return t.cval
	}
	if v, ok := memo[t.id]; ok {
		return v
	}
	var r uint64
	if t.op == OpVar {
		r = model[t.name] & maskSort(t.w)
	} else if t.op == OpIte {
		if ts.Eval(t.args[0], model, memo) != 0 {
			r = ts.Eval(t.args[1], model, memo)
		} else {
			r = ts.Eval(t.args[2], model, memo)
		}
	} else {
		av := make([]uint64, len(t.args))
		aw := make([]int, len(t.args))
		for i, a := range t.args {
			av[i] = ts.Eval(a, model, memo)
			aw[i] = a.w
		}
		r = evalOp(t.op, t.w, t.p1, t.p2, av, aw)
	}
	memo[t.id] = r
	return r
}

func maskSort(w int) uint64 {
	if w == SortBool {
		return 1
	}
	if w == SortFP {
		return ^uint64(0)
	}
	return mask(w)
}

// Vars collects the variables occurring in the given terms.
func (ts *TermStore) VarsOf(terms []*Term) []*Term {
	seen := map[int]bool{}
	var out []*Term
	var rec func(t *Term)
	rec = func(t *Term) {
		if seen[t.id] {
			return
		}
		seen[t.id] = true
		if t.op == OpVar {
			out = append(out, t)
		}
		for _, a := range t.args {
			rec(a)
		}
	}
	for _, t := range terms {
		rec(t)
	}
	sort.Slice(out, func(i, j int) bool { return out[i].name < out[j].name })
	return out
}

func sortStr(w int) string {
	switch w {
	case SortBool:
		return "Bool"
	case SortFP:
		return "(_ FloatingPoint 11 53)"
	}
	return fmt.Sprintf("(_ BitVec %d)", w)
}

func smtName(n string) string { return "|" + strings.ReplaceAll(n, "|", "!") + "|" }

func constStr(t *Term) string {
	switch t.w {
	case SortBool:
		if t.cval != 0 {
			return "true"
		}
		return "false"
	case SortFP:
		b := t.cval
		return fmt.Sprintf("(fp #b%01b #b%011b #b%052b)", b>>63, (b>>52)&0x7ff, b&((1<<52)-1))
	}
	if t.w%4 == 0 {
		return fmt.Sprintf("#x%0*x", t.w/4, t.cval)
	}
	return fmt.Sprintf("#b%0*b", t.w, t.cval)
}

var opNames = map[Op]string{
	OpAdd: "bvadd", OpSub: "bvsub", OpMul: "bvmul", OpUDiv: "bvudiv", OpURem: "bvurem", OpSDiv: "bvsdiv", OpSRem: "bvsrem",
	OpAnd: "bvand", OpOr: "bvor", OpXor: "bvxor", OpNeg: "bvneg", OpShl: "bvshl", OpLShr: "bvlshr", OpAShr: "bvashr",
	OpConcat: "concat", OpEq: "=", OpULt: "bvult", OpULe: "bvule", OpSLt: "bvslt", OpSLe: "bvsle", OpBAnd: "and", OpBOr: "or", OpIte: "ite",
	OpFNeg: "fp.neg", OpFLt: "fp.lt", OpFLe: "fp.leq", OpFEq: "fp.eq",
}

// head returns the SMT-LIB application of t over argument strings.
func smtApp(t *Term, as []string) string {
	j := strings.Join(as, " ")
	switch t.op {
	case OpNot:
		if t.w == SortBool {
			return "(not " + j + ")"
		}
		return "(bvnot " + j + ")"
	case OpExtract:
		return fmt.Sprintf("((_ extract %d %d) %s)", t.p1, t.p2, j)
	case OpZExt:
		return fmt.Sprintf("((_ zero_extend %d) %s)", t.w-t.args[0].w, j)
	case OpSExt:
		return fmt.Sprintf("((_ sign_extend %d) %s)", t.w-t.args[0].w, j)
	case OpFFromS:
		return "((_ to_fp 11 53) RNE " + j + ")"
	case OpFFromU:
		return "((_ to_fp_unsigned 11 53) RNE " + j + ")"
	case OpFToS:
		return fmt.Sprintf("((_ fp.to_sbv %d) RTZ %s)", t.w, j)
	case OpFToU:
		return fmt.Sprintf("((_ fp.to_ubv %d) RTZ %s)", t.w, j)
	case OpFAdd:
		return "(fp.add RNE " + j + ")"
	case OpFSub:
		return "(fp.sub RNE " + j + ")"
	case OpFMul:
		return "(fp.mul RNE " + j + ")"
	case OpFDiv:
		return "(fp.div RNE " + j + ")"
	case OpFCeil:
		return "(fp.roundToIntegral RTP " + j + ")"
	case OpFFloor:
		return "(fp.roundToIntegral RTN " + j + ")"
	}
	n, ok := opNames[t.op]
	if !ok {
		panic(fmt.Sprintf("smtApp: op %d", t.op))
	}
	return "(" + n + " " + j + ")"
}

// Script renders a standalone SMT-LIB2 script asserting all given terms.
func (ts *TermStore) Script(asserts []*Term, getModel bool) string {
	var sb strings.Builder
	sb.WriteString("(set-logic ALL)\n")
	for _, v := range ts.VarsOf(asserts) {
		fmt.Fprintf(&sb, "(declare-const %s %s)\n", smtName(v.name), sortStr(v.w))
	}
	// count references to decide sharing
	refs := map[int]int{}
	var order []*Term
	var rec func(t *Term)
	rec = func(t *Term) {
		refs[t.id]++
		if refs[t.id] > 1 {
			return
		}
		for _, a := range t.args {
			rec(a)
		}
		order = append(order, t)
	}
	for _, a := range asserts {
		rec(a)
	}
	names := map[int]string{}
	for _, t := range order {
		switch t.op {
		case OpConst:
			names[t.id] = constStr(t)
			continue
		case OpVar:
			names[t.id] = smtName(t.name)
			continue
		}
		as := make([]string, len(t.args))
		for i, a := range t.args {
			as[i] = names[a.id]
		}
		s := smtApp(t, as)
		if refs[t.id] > 1 || len(s) > 200 {
			n := fmt.Sprintf("t%d", t.id)
			fmt.Fprintf(&sb, "(define-fun %s () %s %s)\n", n, sortStr(t.w), s)
			names[t.id] = n
		} else {
			names[t.id] = s
		}
	}
	for _, a := range asserts {
		fmt.Fprintf(&sb, "(assert %s)\n", names[a.id])
	}
	sb.WriteString("(check-sat)\n")
	if getModel {
		vs := ts.VarsOf(asserts)
		if len(vs) > 0 {
			sb.WriteString("(get-value (")
			for _, v := range vs {
				sb.WriteString(smtName(v.name) + " ")
			}
			sb.WriteString("))\n")
		}
	}
	return sb.String()
}

func popcount(x uint64) int { return bits.OnesCount64(x) }

// HasArith reports whether the terms contain division/remainder/multiplication or FP operations.
func (ts *TermStore) HasHardArith(terms []*Term) (div bool, fp bool) {
	seen := map[int]bool{}
	var rec func(t *Term)
	rec = func(t *Term) {
		if seen[t.id] {
			return
		}
		seen[t.id] = true
		switch t.op {
		case OpUDiv, OpURem, OpSDiv, OpSRem:
			div = true
		case OpMul:
			if !t.args[0].IsConst() && !t.args[1].IsConst() {
				div = true
			}
		case OpFFromS, OpFFromU, OpFToS, OpFToU, OpFAdd, OpFSub, OpFMul, OpFDiv, OpFCeil, OpFFloor, OpFLt, OpFLe, OpFEq, OpFNeg:
			fp = true
		}
		if t.w == SortFP {
			fp = true
		}
		for _, a := range t.args {
			rec(a)
		}
	}
	for _, t := range terms {
		rec(t)
	}
	return
}

var noIteDist = os.Getenv("VERIF_NO_ITEDIST") != ""

// iteConstLeaves reports whether t is an ite tree all of whose leaves are constants, with at
// most limit nodes visited.
func iteConstLeaves(t *Term, limit int) bool {
	n := 0
	var walk func(t *Term) bool
	walk = func(t *Term) bool {
		n++
		if n > limit {
			return false
		}
		if t.op == OpIte {
			return walk(t.args[1]) && walk(t.args[2])
		}
		return t.IsConst()
	}
	return walk(t)
}

// mapIteLeaves rebuilds an ite tree with f applied to every leaf.
func (ts *TermStore) mapIteLeaves(t *Term, memo map[*Term]*Term, f func(*Term) *Term) *Term {
	if r, ok := memo[t]; ok {
		return r
	}
	var r *Term
	if t.op == OpIte {
		a := ts.mapIteLeaves(t.args[1], memo, f)
		b := ts.mapIteLeaves(t.args[2], memo, f)
		r = ts.Ite(t.args[0], a, b)
	} else {
		r = f(t)
	}
	memo[t] = r
	return r
}
