package main

import (
	"runtime"
	"syscall"
	"unsafe"
)

// pinThread binds the calling goroutine to an OS thread and that thread to one CPU. The solver
// process is started on the same CPU: on this VM cross-CPU futex/pipe wake-ups cost milliseconds,
// so a worker and its solver sharing a CPU is about five times faster than letting them float.
func pinThread(cpu int) func() {
	if cpu < 0 {
		return func() {}
	}
	runtime.LockOSThread()
	var old [16]uint64
	syscall.RawSyscall(syscall.SYS_SCHED_GETAFFINITY, 0, unsafe.Sizeof(old), uintptr(unsafe.Pointer(&old[0])))
	var set [16]uint64
	set[cpu/64] = 1 << uint(cpu%64)
	syscall.RawSyscall(syscall.SYS_SCHED_SETAFFINITY, 0, unsafe.Sizeof(set), uintptr(unsafe.Pointer(&set[0])))
	return func() {
		syscall.RawSyscall(syscall.SYS_SCHED_SETAFFINITY, 0, unsafe.Sizeof(old), uintptr(unsafe.Pointer(&old[0])))
		runtime.UnlockOSThread()
	}
}
