package main

// Models for context, reflect type tokens, sync.Pool, time construction and the protobuf batch
// encoder (DESIGN.md §2.4).

import (
	"fmt"
	"go/types"
	"math"
	"strings"
	"time"

	"golang.org/x/tools/go/ssa"
)

type randRec struct {
	seed *Term
	idx  int
	out  *Term
}

var randSrcT = types.NewPointer(types.NewNamed(types.NewTypeName(0, nil, "randSource", nil), types.NewStruct(nil, nil), nil))

// SeqV models an iter.Seq produced by maps.Keys/maps.Values.
type SeqV struct{ vals []Value }

var (
	shaHasherT = types.NewPointer(types.NewNamed(types.NewTypeName(0, nil, "sha256Hasher", nil), types.NewStruct(nil, nil), nil))
	ctxTokT    = types.NewPointer(types.NewNamed(types.NewTypeName(0, nil, "opaqueContext", nil), types.NewStruct(nil, nil), nil))
	rtypeTokT  = types.NewPointer(types.NewNamed(types.NewTypeName(0, nil, "reflectTypeToken", nil), types.NewStruct(nil, nil), nil))
)

func ctxValue() Value { return IfaceV{typ: ctxTokT, v: PtrV{}} }

// ctxWithCancel: a context that is cancelled only by its cancel function (deadlines never
// expire inside a step). State: heap object holding a Bool term constant.
func ctxWithCancel(e *Engine, st *State, args []Value) Value {
	e.modelsUsed["context.With* = context cancelled only by its cancel function; deadlines never expire inside a step"] = true
	id := st.alloc(ArrayV{[]Value{e.ts.False}}, nil)
	// a child of a cancelled parent is cancelled
	if len(args) > 0 {
		if pv, ok := args[0].(IfaceV); ok && pv.typ == ctxTokT {
			if pp := pv.v.(PtrV); pp.obj != 0 {
				st.heap[id] = st.heap[pp.obj]
			}
		}
	}
	return TupleV{[]Value{IfaceV{typ: ctxTokT, v: PtrV{obj: id}}, FuncV{builtin: "ctxcancel", bind: []Value{PtrV{obj: id}}}}}
}

func init() {
	more := map[string]modelFn{
		"context.Background":   func(e *Engine, st *State, args []Value) Value { return ctxValue() },
		"context.TODO":         func(e *Engine, st *State, args []Value) Value { return ctxValue() },
		"context.WithCancel":   ctxWithCancel,
		"context.WithTimeout":  ctxWithCancel,
		"context.WithDeadline": ctxWithCancel,
		"reflect.TypeOf": func(e *Engine, st *State, args []Value) Value {
			iv := args[0].(IfaceV)
			if iv.typ == nil {
				return IfaceV{}
			}
			return IfaceV{typ: rtypeTokT, v: TypeTokV{iv.typ}}
		},
		"(*sync.Pool).Get": func(e *Engine, st *State, args []Value) Value {
			p := args[0].(PtrV)
			pool := e.load(st, p).(StructV)
			// field "New" is the last field of sync.Pool
			nf := pool.f[len(pool.f)-1]
			fv, ok := nf.(FuncV)
			if !ok || (fv.fn == nil && fv.builtin == "") {
				return IfaceV{}
			}
			e.callThen(st, fv, nil, func(st *State, rv Value) { e.deliver(st, rv) })
			return pending{}
		},
		"(*sync.Pool).Put": noop,
		"crypto/sha256.New": func(e *Engine, st *State, args []Value) Value {
			id := st.alloc(ArrayV{}, nil)
			return IfaceV{typ: shaHasherT, v: PtrV{obj: id}}
		},
		"(*strings.Builder).Write": func(e *Engine, st *State, args []Value) Value {
			n := sbAppend(e, st, args[0].(PtrV), e.sliceElems(st, args[1].(SliceV)))
			return TupleV{[]Value{e.ts.BV(uint64(n), 64), IfaceV{}}}
		},
		"(*strings.Builder).WriteString": func(e *Engine, st *State, args []Value) Value {
			s := args[1].(StringV)
			if s.opaque {
				panic(unsupported("strings.Builder.WriteString of unmodelled string"))
			}
			el := make([]Value, len(s.b))
			for i, b := range s.b {
				el[i] = b
			}
			n := sbAppend(e, st, args[0].(PtrV), el)
			return TupleV{[]Value{e.ts.BV(uint64(n), 64), IfaceV{}}}
		},
		"(*strings.Builder).WriteByte": func(e *Engine, st *State, args []Value) Value {
			sbAppend(e, st, args[0].(PtrV), []Value{args[1]})
			return IfaceV{}
		},
		"(*strings.Builder).WriteRune": func(e *Engine, st *State, args []Value) Value {
			r := args[1].(*Term)
			c, ok := st.known(r)
			if !ok || c >= 0x80 {
				panic(unsupported("strings.Builder.WriteRune of symbolic or non-ASCII rune"))
			}
			sbAppend(e, st, args[0].(PtrV), []Value{e.ts.BV(c, 8)})
			return TupleV{[]Value{e.ts.BV(1, 64), IfaceV{}}}
		},
		"(*strings.Builder).String": func(e *Engine, st *State, args []Value) Value {
			b := e.load(st, args[0].(PtrV)).(StructV).f[1].(SliceV)
			el := e.sliceElems(st, b)
			out := make([]*Term, len(el))
			for i, x := range el {
				out[i] = x.(*Term)
			}
			return StringV{b: out}
		},
		"(*strings.Builder).Len": func(e *Engine, st *State, args []Value) Value {
			b := e.load(st, args[0].(PtrV)).(StructV).f[1].(SliceV)
			return e.ts.BV(uint64(b.len), 64)
		},
		"(*strings.Builder).Grow": noop,
		"(*strings.Builder).Reset": func(e *Engine, st *State, args []Value) Value {
			p := args[0].(PtrV)
			e.store(st, PtrV{obj: p.obj, path: appendPath(p.path, PathEl{idx: 1})}, SliceV{})
			return nil
		},
		"(*encoding/base64.Encoding).EncodeToString": modelOpaqueStr,
		"strconv.Itoa": modelOpaqueStr,
		"time.Date": func(e *Engine, st *State, args []Value) Value {
			var a [7]int
			for i := 0; i < 7; i++ {
				c, ok := st.known(args[i].(*Term))
				if !ok {
					panic(unsupported("time.Date with symbolic arguments"))
				}
				a[i] = int(int64(c))
			}
			t := time.Date(a[0], time.Month(a[1]), a[2], a[3], a[4], a[5], a[6], time.UTC)
			e.modelsUsed["time.Date = computed concretely, location UTC"] = true
			sec := uint64(t.Unix() + 62135596800)
			return StructV{[]Value{e.ts.BV(uint64(t.Nanosecond()), 64), e.ts.BV(sec, 64), PtrV{}}}
		},
		"math/rand.NewSource": func(e *Engine, st *State, args []Value) Value {
			id := st.alloc(ArrayV{[]Value{args[0]}}, nil)
			return IfaceV{typ: randSrcT, v: PtrV{obj: id}}
		},
		"math/rand.New": func(e *Engine, st *State, args []Value) Value {
			src := args[0].(IfaceV)
			if src.typ != randSrcT {
				panic(unsupported("rand.New over an unmodelled source"))
			}
			return src.v // *rand.Rand is represented by the pointer to the seed cell
		},
		"(*math/rand.Rand).Int": func(e *Engine, st *State, args []Value) Value {
			// uninterpreted function of (seed, call index): non-negative; equal seeds give equal values
			p := args[0].(PtrV)
			cell := st.heap[p.obj].(ArrayV)
			seed := cell.e[0].(*Term)
			idx := len(cell.e) - 1
			out := e.nondet(st, "rand.Int", 64)
			if e.pinned == nil {
				e.addPC(st, e.ts.Bin(OpSLe, e.ts.BV(0, 64), out))
				recs, _ := st.ghost["rand"].([]randRec)
				for _, r := range recs {
					if r.idx == idx {
						e.addPC(st, e.ts.Implies(e.ts.Eq(r.seed, seed), e.ts.Eq(r.out, out)))
					}
				}
				st.ghost["rand"] = append(append([]randRec(nil), recs...), randRec{seed, idx, out})
			}
			st.heap[p.obj] = ArrayV{append(append([]Value(nil), cell.e...), out)}
			e.modelsUsed["math/rand: Int() = uninterpreted non-negative function of (seed, call index)"] = true
			return out
		},
		"math.Pow": func(e *Engine, st *State, args []Value) Value {
			a, ok1 := st.known(args[0].(*Term))
			b, ok2 := st.known(args[1].(*Term))
			if !ok1 || !ok2 {
				panic(unsupported("math.Pow with symbolic arguments"))
			}
			e.modelsUsed["math.Pow = computed concretely"] = true
			return e.ts.FP(math.Pow(math.Float64frombits(a), math.Float64frombits(b)))
		},
		"math.Log": func(e *Engine, st *State, args []Value) Value {
			a, ok := st.known(args[0].(*Term))
			if !ok {
				panic(unsupported("math.Log with a symbolic argument"))
			}
			e.modelsUsed["math.Log = computed concretely (same machine function as the native build)"] = true
			return e.ts.FP(math.Log(math.Float64frombits(a)))
		},
		"math.Log2": func(e *Engine, st *State, args []Value) Value {
			a, ok := st.known(args[0].(*Term))
			if !ok {
				panic(unsupported("math.Log2 with a symbolic argument"))
			}
			e.modelsUsed["math.Log2 = computed concretely (same machine function as the native build)"] = true
			return e.ts.FP(math.Log2(math.Float64frombits(a)))
		},
		"math.Log10": func(e *Engine, st *State, args []Value) Value {
			a, ok := st.known(args[0].(*Term))
			if !ok {
				panic(unsupported("math.Log10 with a symbolic argument"))
			}
			e.modelsUsed["math.Log10 = computed concretely (same machine function as the native build)"] = true
			return e.ts.FP(math.Log10(math.Float64frombits(a)))
		},
		"math.Sqrt": func(e *Engine, st *State, args []Value) Value {
			a, ok := st.known(args[0].(*Term))
			if !ok {
				panic(unsupported("math.Sqrt with a symbolic argument"))
			}
			e.modelsUsed["math.Sqrt = computed concretely (same machine function as the native build)"] = true
			return e.ts.FP(math.Sqrt(math.Float64frombits(a)))
		},
		"math.Exp": func(e *Engine, st *State, args []Value) Value {
			a, ok := st.known(args[0].(*Term))
			if !ok {
				panic(unsupported("math.Exp with a symbolic argument"))
			}
			e.modelsUsed["math.Exp = computed concretely (same machine function as the native build)"] = true
			return e.ts.FP(math.Exp(math.Float64frombits(a)))
		},
		"math.Round": func(e *Engine, st *State, args []Value) Value {
			a, ok := st.known(args[0].(*Term))
			if !ok {
				panic(unsupported("math.Round with a symbolic argument"))
			}
			e.modelsUsed["math.Round = computed concretely (same machine function as the native build)"] = true
			return e.ts.FP(math.Round(math.Float64frombits(a)))
		},
		"math.Trunc": func(e *Engine, st *State, args []Value) Value {
			a, ok := st.known(args[0].(*Term))
			if !ok {
				panic(unsupported("math.Trunc with a symbolic argument"))
			}
			e.modelsUsed["math.Trunc = computed concretely (same machine function as the native build)"] = true
			return e.ts.FP(math.Trunc(math.Float64frombits(a)))
		},
		// BLS12-381 point decoding: only the length check is modelled (a compressed G2 point has 96
		// bytes); decoding a 96-byte string enters the field arithmetic and stays unsupported.
		"github.com/kilic/bls12-381.NewG2": func(e *Engine, st *State, args []Value) Value {
			e.modelsUsed["bls12-381: NewG2 = opaque handle; FromCompressed rejects inputs that are not 96 bytes long (other inputs unsupported)"] = true
			return PtrV{}
		},
		"(*github.com/kilic/bls12-381.G2).FromCompressed": func(e *Engine, st *State, args []Value) Value {
			in := args[1].(SliceV)
			if len(e.sliceElems(st, in)) != 96 {
				return TupleV{[]Value{PtrV{}, e.opaqueErr(e.ts.True)}}
			}
			panic(unsupported("bls12-381 point decompression of a 96-byte string"))
		},
		"time.AfterFunc": func(e *Engine, st *State, args []Value) Value {
			e.modelsUsed["time.AfterFunc = timer that never fires inside a step"] = true
			return PtrV{}
		},
		"(*time.Timer).Stop": func(e *Engine, st *State, args []Value) Value { return e.ts.False },
		"(*github.com/relab/hotstuff/internal/proto/clientpb.Batch).Marshal": func(e *Engine, st *State, args []Value) Value {
			e.modelsUsed["clientpb.Batch.Marshal = injective encoding of (ClientID, SequenceNumber, len(Data), Data) per command; empty/nil batch -> empty"] = true
			p := args[0].(PtrV)
			var out []Value
			if p.obj != 0 {
				b := e.load(st, p).(StructV)
				cmds := b.f[1].(SliceV)
				for _, cv := range e.sliceElems(st, cmds) {
					cp := cv.(PtrV)
					if cp.obj == 0 {
						panic(unsupported("nil command in batch"))
					}
					c := e.load(st, cp).(StructV)
					id := c.f[1].(*Term)
					seq := c.f[2].(*Term)
					data := c.f[3].(SliceV)
					for i := 0; i < 4; i++ {
						out = append(out, e.ts.Extract(id, 8*i+7, 8*i))
					}
					for i := 0; i < 8; i++ {
						out = append(out, e.ts.Extract(seq, 8*i+7, 8*i))
					}
					out = append(out, e.ts.BV(uint64(data.len), 8))
					out = append(out, e.sliceElems(st, data)...)
				}
			}
			u8 := types.Typ[types.Uint8]
			return e.newSlice(st, out, len(out), u8)
		},
	}
	for k, v := range more {
		models[k] = v
	}
}

func sbAppend(e *Engine, st *State, p PtrV, add []Value) int {
	if p.obj == 0 {
		panic(goPanic{site: "nil pointer dereference (strings.Builder)"})
	}
	e.modelsUsed["strings.Builder = byte buffer (its unsafe string conversion is not executed)"] = true
	bp := PtrV{obj: p.obj, path: appendPath(p.path, PathEl{idx: 1})}
	b := e.load(st, bp).(SliceV)
	if len(add) > 0 {
		nb := e.appendElems(st, b, add, types.Typ[types.Uint8])
		e.store(st, bp, nb)
	}
	return len(add)
}

// findModelGeneric handles instantiated generic functions by name prefix.
func (e *Engine) findModelGeneric(fn *ssa.Function) modelFn {
	name := fn.String()
	if strings.HasPrefix(name, "maps.Keys[") || strings.HasPrefix(name, "maps.Values[") {
		isKeys := strings.HasPrefix(name, "maps.Keys[")
		return func(e *Engine, st *State, args []Value) Value {
			mo := e.mapObj(st, args[0].(MapV))
			e.modelsUsed["maps.Keys/Values = sequence of the map's entries (iteration order: insertion order)"] = true
			if isKeys {
				return SeqV{append([]Value(nil), mo.keys...)}
			}
			return SeqV{append([]Value(nil), mo.vals...)}
		}
	}
	if strings.HasPrefix(name, "slices.Sorted[") || strings.HasPrefix(name, "slices.Collect[") {
		sorted := strings.HasPrefix(name, "slices.Sorted[")
		targs := fn.TypeArgs()
		return func(e *Engine, st *State, args []Value) Value {
			seq, ok := args[0].(SeqV)
			if !ok {
				panic(unsupported("slices.Sorted/Collect over a general iterator function"))
			}
			el := append([]Value(nil), seq.vals...)
			var et types.Type = types.Typ[types.Int]
			if len(targs) > 0 {
				et = targs[len(targs)-1]
				if len(targs) == 1 {
					et = targs[0]
				}
			}
			if sorted {
				_, signed, isInt := intWidth(et)
				if !isInt {
					panic(unsupported("slices.Sorted of non-integer elements"))
				}
				// compare-exchange network (bubble): works for symbolic elements
				for i := 0; i < len(el); i++ {
					for j := 0; j+1 < len(el)-i; j++ {
						a, b := el[j].(*Term), el[j+1].(*Term)
						var lt *Term
						if signed {
							lt = e.ts.Bin(OpSLe, a, b)
						} else {
							lt = e.ts.Bin(OpULe, a, b)
						}
						el[j], el[j+1] = e.ts.Ite(lt, a, b), e.ts.Ite(lt, b, a)
					}
				}
				e.modelsUsed["slices.Sorted = compare-exchange network"] = true
			}
			if len(el) == 0 {
				return SliceV{}
			}
			return e.newSlice(st, el, len(el), et)
		}
	}
	if strings.HasPrefix(name, "reflect.TypeFor[") {
		targs := fn.TypeArgs()
		if len(targs) == 1 {
			t := targs[0]
			return func(e *Engine, st *State, args []Value) Value {
				return IfaceV{typ: rtypeTokT, v: TypeTokV{t}}
			}
		}
	}
	return nil
}

// shaMethod implements hash.Hash on the modelled SHA-256 state (accumulated input bytes).
func (e *Engine) shaMethod(st *State, recv IfaceV, method string, args []Value) (Value, bool) {
	p := recv.v.(PtrV)
	acc := st.heap[p.obj].(ArrayV)
	switch method {
	case "Write":
		add := e.sliceElems(st, args[0].(SliceV))
		st.heap[p.obj] = ArrayV{append(append([]Value(nil), acc.e...), add...)}
		return TupleV{[]Value{e.ts.BV(uint64(len(add)), 64), IfaceV{}}}, true
	case "Sum":
		in := make([]*Term, len(acc.e))
		for i, x := range acc.e {
			in[i] = x.(*Term)
		}
		out := e.shaOf(st, in)
		ov := make([]Value, 32)
		for i := range ov {
			ov[i] = out[i]
		}
		b := args[0].(SliceV)
		return e.appendElems(st, b, ov, types.Typ[types.Uint8]), true
	case "Reset":
		st.heap[p.obj] = ArrayV{}
		return nil, true
	case "Size":
		return e.ts.BV(32, 64), true
	case "BlockSize":
		return e.ts.BV(64, 64), true
	}
	return nil, false
}

func (e *Engine) ctxCancelled(st *State, recv IfaceV) bool {
	p := recv.v.(PtrV)
	if p.obj == 0 {
		return false
	}
	return st.heap[p.obj].(ArrayV).e[0].(*Term).IsTrue()
}

func (e *Engine) ctxMethod(st *State, recv IfaceV, method string) (Value, bool) {
	switch method {
	case "Done":
		if e.ctxCancelled(st, recv) {
			id := st.alloc(ChanObj{closed: true}, types.NewChan(types.SendRecv, types.NewStruct(nil, nil)))
			return ChanV{obj: id}, true
		}
		return ChanV{}, true // nil channel: never ready
	case "Err":
		if e.ctxCancelled(st, recv) {
			return e.opaqueErr(e.ts.True), true
		}
		return IfaceV{}, true
	case "Value":
		return IfaceV{}, true
	case "Deadline":
		return TupleV{[]Value{e.zeroTime(), e.ts.False}}, true
	}
	return nil, false
}

func (e *Engine) zeroTime() Value {
	return StructV{[]Value{e.ts.BV(0, 64), e.ts.BV(0, 64), PtrV{}}}
}

var _ = fmt.Sprintf
