#!/bin/bash
# usage: tools/confirm_seed.sh <name> <dir with patch.diff, demo test, demo_path.txt>
# Confirms in a fresh scratch worktree: builds, whole suite passes with the change, demo fails
# with the change and passes without it. Removes the worktree afterwards.
name=$1; src=$2
wt=/tmp/confirm/$name
export GOFLAGS=-mod=mod GOPROXY=off
rm -rf $wt; mkdir -p /tmp/confirm
git -C /repo worktree add -q --detach $wt HEAD || exit 3
cd $wt
git apply $src/patch.diff || { echo "PATCH DOES NOT APPLY"; git -C /repo worktree remove --force $wt; exit 3; }
go build ./... || { echo "BUILD FAILS"; git -C /repo worktree remove --force $wt; exit 3; }
suite=$(go test -vet=off -count=1 ./... 2>&1 | grep -v "no test files" | grep -v "^ok" | head -20)
if [ -z "$suite" ]; then echo "SUITE: passes with the change"; else echo "SUITE: FAILS with the change:"; echo "$suite"; fi
demo=$(cat $src/demo_path.txt | tr -d '\n ')
demofile=$(ls $src/*_test.go | head -1)
cp $demofile $wt/$demo
pkg=./$(dirname $demo)
with=$(go test -vet=off -count=1 $pkg 2>&1 | tail -3)
echo "DEMO with change: $(echo "$with" | tail -1)"
git apply -R $src/patch.diff
without=$(go test -vet=off -count=1 $pkg 2>&1 | tail -3)
echo "DEMO without change: $(echo "$without" | tail -1)"
cd /; git -C /repo worktree remove --force $wt
