#!/bin/bash
# usage: tools/store_seed.sh <ID> <suffix> <src SEED dir> <check_run IDs> <caught_by> <history>
id=$1; suf=$2; src=$3; runs=$4; caught=$5; hist=$6
d=/verif/seeded/$id-$suf
mkdir -p $d
cp $src/patch.diff $d/patch.diff
cp $(ls $src/*_test.go | head -1) $d/demo_test.go.txt
cp $src/demo_path.txt $d/demo_path.txt
cp $src/notes.md $d/notes.md
python3 - "$id" "$d" "$runs" "$caught" "$hist" <<'PY'
import json,sys
id,d,runs,caught,hist=sys.argv[1:6]
notes=open(d+'/notes.md').read().splitlines()[:12]
json.dump({"property":id,
 "origin":"independent sub-agent given only the property text, one sentence about the first seeded change (to avoid a duplicate) and a scratch worktree of /repo",
 "needs_to_manifest":notes,
 "confirmed_by_me":"tools/confirm_seed.sh in a fresh scratch worktree: go build ok; whole unedited suite passes with the change (TestTicker re-run alone where it flaked under load); demo fails with the change; demo passes without it",
 "check_run":"tools/run_seed.sh seeded/%s/patch.diff %s"%(d.split('/')[-1],runs),
 "caught_by":caught,"history":hist},open(d+'/meta.json','w'),indent=1)
PY
