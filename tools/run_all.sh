#!/bin/bash
# usage: tools/run_all.sh quick|thorough [IDs...] — runs the registered command of every claimed property on /repo
# as it stands and prints one summary line per property (evidence goes to /verif/evidence/<ID>.json).
tier=$1; shift
ids="$@"; [ -z "$ids" ] && ids="C01 C02 C03 C04 C05 C06 C07 C08 C09 C10 C11 C12 C13 C14 C15 C16 C17 C18 C19 C20"
cd /verif
for id in $ids; do
  ev=""; [ "$tier" = thorough ] && ev="--evidence /verif/evidence/by-tier/$id.thorough.json"  # keep evidence/<id>.json for the quick run
  t0=$(date +%s)
  out=$(VERIF_JOBLOG=/tmp/joblog_${tier}_$id.txt timeout 5400 ./bin/vcheck run $id --tier $tier $ev 2>&1); rc=$?
  t1=$(date +%s)
  echo "$id rc=$rc $((t1-t0))s $(echo "$out" | grep -E "^$id $tier:" | tail -1)"
  echo "$out" | grep -E "VIOLATION|ERROR|INCONCLUSIVE|KNOWN-FINDING" | head -5
done
