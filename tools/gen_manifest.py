#!/usr/bin/env python3
"""Generates /verif/MANIFEST.json from tools/claims.json (kept valid at all times)."""
import json, os
root = os.path.dirname(os.path.dirname(os.path.abspath(__file__)))
props = [json.loads(l) for l in open(os.path.join(root, 'properties.jsonl'))]
claims = json.load(open(os.path.join(root, 'tools', 'claims.json')))
checks, na = [], []
for p in props:
    pid = p['id']
    c = claims.get(pid)
    if not c or c.get('not_applicable'):
        na.append({"property_id": pid, "reason": (c or {}).get('not_applicable', 'check not built yet (see DESIGN.md section 5)')})
        continue
    checks.append({
        "property_id": pid,
        "quick_cmd": f"bin/vcheck run {pid} --tier quick",
        "thorough_cmd": f"bin/vcheck run {pid} --tier thorough",
        "evidence_file": f"/verif/evidence/{pid}.json",
        "replay_cmd_template": "bin/vcheck replay {path}",
        "engine": "vcheck",
        "level_claimed": {"category": "other", "text": c['text'], "design_ref": c.get('design_ref', 'DESIGN.md section 5, ' + pid)},
        "level_note": c['note'],
        "technique": c.get('technique', "bounded symbolic execution of the repository's Go SSA into SMT (z3/cvc5), counterexamples replayed natively"),
    })
m = {
    "version": 1,
    "setup_cmd": "cd /verif/engine && env -u GOSUMDB GOFLAGS=-mod=vendor GOPROXY=off GOTOOLCHAIN=auto go build -o /verif/bin/vcheck .",
    "hooks": {"guard": "verif", "enable": "none needed: harnesses are injected with go/packages and `go test -overlay` overlays; /repo carries no hook commits", "baseline_off_cmd": "cd /repo && GOFLAGS=-mod=mod GOPROXY=off go test -vet=off -count=1 -timeout 25m ./...", "source_commits": [], "add_only": True},
    "engines": [{"name": "vcheck", "path": "/verif/engine", "serves_properties": [c["property_id"] for c in checks],
                 "kind_free_text": "symbolic executor for Go SSA (golang.org/x/tools/go/ssa) written for this task: bit-vector/FP terms, forking with solver pruning, z3 incremental + z3/z3-new/cvc5 portfolio, native replay and translator validation via go test -overlay"}],
    "checks": checks,
    "notes": "Every result is bounded: see evidence coverage.harnesses[].bounds and DESIGN.md section 8. Exit 0 with INCONCLUSIVE lines means some obligation could not be decided at the registered bound (recorded in evidence); exit 3 means the run decided nothing (engine could not execute the code, vacuous harness, counterexample that does not replay); VIOLATION lines (exit 1) are printed only for counterexamples that reproduce natively. Known findings: /verif/known_findings.json (C05-F1 is the only open one; the check prints KNOWN-FINDING lines for it and exits 0).",
    "not_applicable": na,
}
json.dump(m, open(os.path.join(root, 'MANIFEST.json'), 'w'), indent=1)
print(len(checks), "checks,", len(na), "not applicable")
