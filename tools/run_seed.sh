#!/bin/bash
# usage: tools/run_seed.sh <patch.diff> <ID> [ID...]   — applies the seeded change to /repo,
# runs the quick checks, and reverts.
patch=$1; shift
cd /repo || exit 3
if [ -n "$(git status --porcelain)" ]; then echo "REFUSING: /repo has uncommitted changes"; exit 3; fi
git apply $patch || { echo "patch does not apply"; exit 3; }
for id in "$@"; do
  (cd /verif && ./bin/vcheck run $id --tier quick --evidence /tmp/seed_ev_$id.json | grep -E "VIOLATION|ERROR|INCONCLUSIVE|quick:" | head -8)
done
git -C /repo checkout -- .
