#!/bin/bash
# usage: tools/regress_seeds.sh [seed-dir-name ...]  — applies every stored seeded change to /repo in turn,
# runs the quick check(s) named in its meta.json and reports whether a VIOLATION was printed.
cd /verif
seeds="$@"; [ -z "$seeds" ] && seeds=$(ls seeded)
for s in $seeds; do
  ids=$(python3 -c "import json;print(json.load(open('seeded/$s/meta.json'))['check_run'].split('patch.diff',1)[1].strip())" | tr ' ' '\n' | grep -E '^C[0-9][0-9]$' | tr '\n' ' ')
  [ -z "$ids" ] && ids=${s%%-*}
  out=$(tools/run_seed.sh /verif/seeded/$s/patch.diff $ids 2>&1)
  n=$(echo "$out" | grep -c "^VIOLATION")
  if [ "$n" -gt 0 ]; then echo "$s [$ids]: CAUGHT ($n)"; else echo "$s [$ids]: MISSED"; echo "$out" | tail -3; fi
done
