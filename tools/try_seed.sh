#!/bin/bash
# usage: tools/try_seed.sh <patch.diff> <ID> [ID...] — preliminary run of a seeded change in the scratch
# worktree /tmp/devrepo (so that long runs against /repo are not disturbed); the run that counts is
# tools/run_seed.sh against /repo itself.
patch=$1; shift
wt=/tmp/devrepo
[ -d $wt ] || git -C /repo worktree add -q --detach $wt HEAD
cd $wt && git checkout -q -- . && git apply $patch || { echo "patch does not apply"; exit 3; }
for id in "$@"; do
  (cd /verif && ./bin/vcheck run $id --tier quick --repo $wt --evidence /tmp/try_ev_$id.json | grep -E "VIOLATION|ERROR|INCONCLUSIVE|quick:" | cut -c1-220 | head -8)
done
cd $wt && git checkout -q -- .
