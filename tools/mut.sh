#!/bin/bash
# usage: tools/mut.sh <repo-file> <python-replace-old> <python-replace-new> <ID> [extra vcheck args]
# applies a one-off textual mutation to /repo, runs the quick check, and reverts.
set -u
f=$1; old=$2; new=$3; id=$4; shift 4
cd /repo || exit 3
if [ -n "$(git status --porcelain)" ]; then echo "REFUSING: /repo has uncommitted changes"; exit 3; fi
python3 - "$f" "$old" "$new" <<'PY'
import sys
f,old,new=sys.argv[1:4]
s=open(f).read()
if old not in s:
    print("MUTATION TARGET NOT FOUND"); sys.exit(2)
open(f,'w').write(s.replace(old,new,1))
PY
rc=$?
if [ $rc -ne 0 ]; then git -C /repo checkout -- .; exit 3; fi
(cd /repo && GOFLAGS=-mod=mod GOPROXY=off go build ./... 2>&1 | head -5)
cd /verif && ./bin/vcheck run $id --tier quick --evidence /tmp/mut_ev.json "$@" | grep -E "VIOLATION|ERROR|INCONCLUSIVE|quick:" | head -8
git -C /repo checkout -- .
